(* Lemmas behind the property theorems (Props_Cxx.v only restate them). *)
From Coq Require Import List Arith ZArith Bool Lia Permutation.
From LK Require Import AList AListFacts Model Observe Inv StepInv NoPanic.
Import ListNotations.

(* ------------------------------------------------------------------ *)
(* C01 *)

Lemma guards_unique_key s : Inv s -> NoDup (map snd (s_guards s)).
Proof.
  intros HI. pose proof (inv_nd_g _ HI) as Hnd.
  assert (H : forall g1 g2 k, In (g1, k) (s_guards s) -> In (g2, k) (s_guards s) -> g1 = g2).
  { intros g1 g2 k H1 H2. apply In_aget in H1; auto. apply In_aget in H2; auto.
    destruct (Inv_guard_present s g1 k HI H1) as (e1 & He1 & Ho1).
    destruct (Inv_guard_present s g2 k HI H2) as (e2 & He2 & Ho2). congruence. }
  revert Hnd H. generalize (s_guards s). induction l as [|[g k] t IH]; cbn; intros Hnd H; [constructor|].
  inversion Hnd as [|? ? Hn Hnd']; subst. constructor.
  - intros Hin. apply in_map_iff in Hin as ([g' k'] & Hk & Hin'). cbn in Hk. subst k'.
    assert (g = g') by (apply (H g g' k); auto). subst. apply Hn. apply (in_map fst) in Hin'. auto.
  - apply IH; auto. intros g1 g2 k0 H1 H2. apply (H g1 g2 k0); auto.
Qed.

(* while a guard for k is alive: a try on k fails, a waiter on k stays blocked *)
Lemma held_try_fails c s a sh k g o :
  Inv s -> aget g (s_guards s) = Some k -> aget a (s_ops s) = Some (PKeyTry sh k) ->
  step c s (LResume a o) = ROk (set_pc s a (PCleanup sh k)) ONothing.
Proof.
  intros HI Hg Ha. cbn. unfold do_resume. rewrite Ha. unfold do_key_try.
  destruct (Inv_guard_present s g k HI Hg) as (e & He & Ho). rewrite He, Ho. reflexivity.
Qed.

Lemma cleanup_reports_fail c s a sh k o s' ob :
  aget a (s_ops s) = Some (PCleanup sh k) -> step c s (LResume a o) = ROk s' ob -> ob = OTryFail.
Proof.
  intros Ha H. cbn in H. unfold do_resume in H. rewrite Ha in H. apply cs_ok in H.
  unfold do_cleanup in H. destruct (cleanup_ents (s_ents s) k) as [[ents|]|]; inv H; auto.
Qed.

Lemma held_waiter_blocked c s a sh k g o :
  Inv s -> aget g (s_guards s) = Some k -> aget a (s_ops s) = Some (PQueued sh k) ->
  step c s (LResume a o) = RInvalid.
Proof.
  intros HI Hg Ha. cbn. unfold do_resume. rewrite Ha. unfold do_queued.
  destruct (Inv_guard_present s g k HI Hg) as (e & He & Ho). rewrite He, Ho. reflexivity.
Qed.

Lemma held_wait_enqueues c s a sh k g o :
  Inv s -> aget g (s_guards s) = Some k -> aget a (s_ops s) = Some (PKeyWait sh k) ->
  exists s', step c s (LResume a o) = ROk s' ONothing /\ aget a (s_ops s') = Some (PQueued sh k) /\
             s_guards s' = s_guards s.
Proof.
  intros HI Hg Ha. cbn. unfold do_resume. rewrite Ha. unfold do_key_wait.
  destruct (Inv_guard_present s g k HI Hg) as (e & He & Ho). rewrite He, Ho.
  eexists. split; [reflexivity|]. cbn. rewrite aget_aset_eq. auto.
Qed.

(* ------------------------------------------------------------------ *)
(* C04 *)

Definition valued (s : state) (k : key) : Prop :=
  exists e, aget k (s_ents s) = Some e /\ e_val e <> None.

Lemma keys_exact s k : Inv s ->
  (In k (akeys (s_ents s)) <->
   valued s k \/ (exists g, In (g, k) (s_guards s)) \/
   (exists a p, In (a, p) (s_ops s) /\ 0 < pc_handles p k)).
Proof.
  intros HI. pose proof (inv_k _ HI k) as [kmx kg kw kr k2 kp]. split.
  - intros Hin. apply keys_aget in Hin as [e He].
    destruct (e_val e) eqn:Ev; [left; exists e; split; auto; congruence|].
    right. pose proof (k2 e He Ev) as Hpos. rewrite (kr e He) in Hpos. unfold handles in Hpos.
    destruct (Nat.eq_dec (gcount (s_guards s) k) 0) as [Z|Z].
    + right. apply ops_handles_pos. lia.
    + left. apply gcount_pos. lia.
  - intros [(e & He & _)|[Hg|Hh]].
    + eapply aget_Some_keys; eauto.
    + apply kp. unfold handles. apply gcount_pos in Hg. lia.
    + apply kp. unfold handles. apply ops_handles_pos in Hh. lia.
Qed.

Lemma quiescent_keys s k : Inv s -> s_guards s = [] -> s_ops s = [] ->
  (In k (akeys (s_ents s)) <-> valued s k).
Proof.
  intros HI Eg Eo. rewrite (keys_exact s k HI). rewrite Eg, Eo. split; [|auto].
  intros [H|[[g []]|(a & p & [] & _)]]. auto.
Qed.

Lemma count_obs c s a o s' n :
  aget a (s_ops s) = Some PCount -> step c s (LResume a o) = ROk s' (OCount n) -> n = length (akeys (s_ents s)).
Proof.
  intros Ha H. cbn in H. unfold do_resume in H. rewrite Ha in H. apply cs_ok in H. inv H.
  unfold akeys. rewrite map_length. auto.
Qed.

Lemma keys_obs c s a o s' l :
  Inv s -> aget a (s_ops s) = Some PKeys -> step c s (LResume a o) = ROk s' (OKeys l) ->
  NoDup l /\ (forall k, In k l <-> In k (akeys (s_ents s))) /\ length l = length (akeys (s_ents s)).
Proof.
  intros HI Ha H. cbn in H. unfold do_resume in H. rewrite Ha in H. apply cs_ok in H.
  destruct (iter_order c s o) as [order|] eqn:Eo; [|discriminate]. inv H.
  destruct (iter_order_spec c s o l (inv_nd_e _ HI) Eo) as (H1 & H2 & H3). repeat split; auto; try apply H2.
  rewrite H3. unfold akeys. rewrite map_length. auto.
Qed.

(* ------------------------------------------------------------------ *)
(* C12 *)

Lemma consume_list_spec s order l :
  Inv s -> s_ops s = [] -> s_guards s = [] ->
  (forall k, In k order -> In k (akeys (s_ents s))) ->
  consume_list (s_ents s) order = inl l ->
  map fst l = order /\ (forall k v, In (k, v) l -> exists e, aget k (s_ents s) = Some e /\ val_of e = Some v).
Proof.
  intros HI Eo Eg. revert l. induction order as [|k rest IH]; intros l Hin H; cbn in H.
  - inv H. split; auto. intros ? ? [].
  - pose proof (Hin k (or_introl eq_refl)) as Hk. apply keys_aget in Hk as [e He]. rewrite He in H.
    destruct (negb (Nat.eqb (e_repl e) 0)); [discriminate|].
    destruct (val_of e) as [v|] eqn:Ev; [|discriminate].
    destruct (consume_list (s_ents s) rest) as [l'|] eqn:El; [|discriminate]. inv H.
    destruct (IH l' (fun k0 H0 => Hin k0 (or_intror H0)) eq_refl) as [H1 H2]. split.
    + cbn. f_equal. exact H1.
    + intros k0 v0 [H|H]; [inv H; eauto|apply H2; auto].
Qed.

(* ------------------------------------------------------------------ *)
(* C02: nothing but an operation on a guard for k changes the value of k *)

Definition vof_e (ents : list (key * entry)) (k : key) : option Z :=
  match aget k ents with Some e => val_of e | None => None end.
Definition vof (s : state) (k : key) : option Z := vof_e (s_ents s) k.

Definition vsame (e1 e2 : list (key * entry)) : Prop := forall k, vof_e e2 k = vof_e e1 k.

Lemma vsame_refl e : vsame e e. Proof. intros k; reflexivity. Qed.
Lemma vsame_trans e1 e2 e3 : vsame e1 e2 -> vsame e2 e3 -> vsame e1 e3.
Proof. intros H1 H2 k. rewrite H2. apply H1. Qed.

Lemma vsame_aset ents k e e' : aget k ents = Some e -> val_of e' = val_of e -> vsame ents (aset k e' ents).
Proof.
  intros He Hv k'. unfold vof_e. rewrite aget_aset. destruct (Nat.eqb_spec k' k); [subst; rewrite He; auto|auto].
Qed.

Lemma vsame_insert ents k e' : aget k ents = None -> val_of e' = None -> vsame ents (aset k e' ents).
Proof.
  intros He Hv k'. unfold vof_e. rewrite aget_aset. destruct (Nat.eqb_spec k' k); [subst; rewrite He; auto|auto].
Qed.

Lemma vsame_adel ents k : vof_e ents k = None -> vsame ents (adel k ents).
Proof.
  intros Hv k'. unfold vof_e in *. rewrite aget_adel. destruct (Nat.eqb_spec k' k); [subst; auto|auto].
Qed.

Lemma vsame_promote c ents k : vsame ents (promote_if_lru c k ents).
Proof. intros k'. unfold vof_e. rewrite promote_if_lru_get. auto. Qed.

Lemma val_of_set_owner e o : val_of (set_owner e o) = val_of e. Proof. reflexivity. Qed.
Lemma val_of_set_repl e r : val_of (set_repl e r) = val_of e. Proof. reflexivity. Qed.
Lemma val_of_set_queue e q : val_of (set_queue e q) = val_of e. Proof. reflexivity. Qed.
Lemma val_of_mx_release e : val_of (mx_release e) = val_of e.
Proof. unfold val_of. rewrite mx_release_val. auto. Qed.
Lemma val_of_mx_cancel e a : val_of (mx_cancel e a) = val_of e.
Proof. unfold val_of. rewrite mx_cancel_val. auto. Qed.

Lemma val_of_None e : e_val e = None -> val_of e = None.
Proof. unfold val_of. intros ->. auto. Qed.

Lemma lock_keys_vsame ks : forall s, vsame (s_ents s) (s_ents (fst (lock_keys s ks))).
Proof.
  induction ks as [|k rest IH]; intros s; cbn [lock_keys]; [apply vsame_refl|].
  destruct (aget k (s_ents s)) as [e|] eqn:He; [|apply IH].
  cbn [new_guard].
  match goal with |- context [lock_keys ?x rest] => set (s2 := x) end.
  specialize (IH s2). destruct (lock_keys s2 rest) as [s3 l]. cbn [fst] in *.
  eapply vsame_trans; [|apply IH]. unfold s2. cbn. eapply vsame_aset; eauto.
Qed.

Lemma clone_all_vsame order : forall ents, vsame ents (clone_all ents order).
Proof.
  induction order as [|k rest IH]; intros ents; cbn; [apply vsame_refl|].
  destruct (aget k ents) as [e|] eqn:He; [|apply IH].
  eapply vsame_trans; [|apply IH]. eapply vsame_aset; eauto.
Qed.

Lemma cleanup_vsame ents k ents' : cleanup_ents ents k = inl (Some ents') -> vsame ents ents'.
Proof.
  unfold cleanup_ents. destruct (aget k ents) as [e|] eqn:He; [|discriminate].
  destruct (Nat.eqb (e_repl e) 1).
  - destruct (e_owner e); [discriminate|]. destruct (e_val e) eqn:Ev; intros H; inv H.
    + eapply vsame_aset; eauto.
    + apply vsame_adel. unfold vof_e. rewrite He. apply val_of_None; auto.
  - intros H; inv H. eapply vsame_aset; eauto.
Qed.

Lemma cancel_vsame c ents a k ents' : cancel_ents c ents a k = inl (Some ents') -> vsame ents ents'.
Proof.
  unfold cancel_ents. destruct (aget k ents) as [e|] eqn:He; [|discriminate].
  cbn [e_repl set_repl e_owner e_val].
  assert (V1 : vsame ents (aset k (set_repl (mx_cancel e a) (e_repl e - 1)) ents)).
  { eapply vsame_aset; eauto. rewrite val_of_set_repl. apply val_of_mx_cancel. }
  destruct (Nat.eqb (e_repl e - 1) 0).
  - destruct (e_owner (mx_cancel e a)); [discriminate|].
    destruct (e_val (mx_cancel e a)) eqn:Ev; intros H; inv H; auto.
    eapply vsame_trans; [apply V1|]. apply vsame_adel. unfold vof_e. rewrite aget_aset_eq.
    apply val_of_None. auto.
  - intros H; inv H; auto.
Qed.

Lemma unlock_cs_vsame c s g s1 : unlock_cs c s g = inl (Some s1) -> vsame (s_ents s) (s_ents s1).
Proof.
  unfold unlock_cs. destruct (aget g (s_guards s)) as [k|]; [|discriminate].
  destruct (aget k (s_ents s)) as [e|] eqn:He; [|discriminate].
  assert (V1 : vsame (s_ents s) (aset k (set_repl (mx_release e) (e_repl e - 1)) (s_ents s))).
  { eapply vsame_aset; eauto. rewrite val_of_set_repl. apply val_of_mx_release. }
  destruct (e_val e) eqn:Ev; [intros H; inv H; auto|].
  cbn [e_repl set_repl].
  assert (V2 : vsame (s_ents s) (promote_if_lru c k (aset k (set_repl (mx_release e) (e_repl e - 1)) (s_ents s)))).
  { eapply vsame_trans; [apply V1|apply vsame_promote]. }
  destruct (Nat.eqb (e_repl e - 1) 0); intros H; inv H; cbn; auto.
  eapply vsame_trans; [apply V2|]. apply vsame_adel. unfold vof_e. rewrite promote_if_lru_get, aget_aset_eq.
  apply val_of_None. cbn. rewrite mx_release_val. auto.
Qed.

Lemma begin_unlock_vsame c s g : vsame (s_ents s) (s_ents (begin_unlock c s g)).
Proof.
  unfold begin_unlock. destruct (c_lru c); [|apply vsame_refl].
  destruct (aget g (s_guards s)) as [k|]; [|apply vsame_refl].
  destruct (aget k (s_ents s)) as [e|] eqn:He; [|apply vsame_refl].
  destruct (e_val e) as [[v st]|] eqn:Ev; [|apply vsame_refl].
  cbn. eapply vsame_aset; eauto. unfold val_of. cbn. rewrite Ev. auto.
Qed.

Definition changes_values (l : label) : bool :=
  match l with LGuardOp _ _ | LConsume _ => true | _ => false end.

Lemma acquire_vsame s k e : aget k (s_ents s) = Some e ->
  vsame (s_ents s) (aset k (set_owner e (Some (OwnG (s_gid s)))) (s_ents s)).
Proof. intros He. eapply vsame_aset; eauto. Qed.

Theorem step_values_unchanged c s l s' o :
  step c s l = ROk s' o -> changes_values l = false -> forall k, vof s' k = vof s k.
Proof.
  intros H Hl. unfold vof. revert H. destruct l; try discriminate; cbn [step]; intros H.
  - (* start *) unfold do_start in H. destruct (amem a (s_ops s)); [discriminate|].
    destruct c0.
    + destruct (lim_ok lim); inv H; apply vsame_refl.
    + destruct (guard_live s g); inv H. apply begin_unlock_vsame.
    + destruct (c_lru c && Z.leb 0 d)%bool; [|discriminate]. destruct (cutoff_of _ _); inv H; apply vsame_refl.
    + inv H; apply vsame_refl.
    + inv H; apply vsame_refl.
    + inv H; apply vsame_refl.
  - (* resume *) unfold do_resume in H. destruct (aget a (s_ops s)) as [p|] eqn:Ha; [|discriminate].
    assert (L : forall sh k s' o, do_lookup c s a sh k = ROk s' o -> vsame (s_ents s) (s_ents s')).
    { intros sh k s1 o1 H1. unfold do_lookup in H1. destruct (aget k (s_ents s)) as [e|] eqn:He.
      - inv H1. cbn. eapply vsame_trans; [apply (vsame_promote c _ k)|].
        eapply vsame_aset; [rewrite promote_if_lru_get; eauto|auto].
      - cbn [new_guard] in H1. inv H1. cbn. apply vsame_insert; auto. }
    destruct p; try discriminate; try (apply cs_ok in H).
    + unfold do_enter in H. destruct lim as [n|]; [|eapply L; eauto].
      destruct (length (s_ents s) - (n - 1)); [eapply L; eauto|].
      destruct (iter_order c s o0); [|discriminate].
      destruct (evict_scan (s_ents s) l (S n0)) as [[[|k1 ks]|]|]; try discriminate; [eapply L; eauto|].
      pose proof (lock_keys_vsame (k1 :: ks) s) as V. destruct (lock_keys s (k1 :: ks)) as [s1 off]. inv H. apply V.
    + unfold do_key_try in H. destruct (aget k (s_ents s)) as [e|] eqn:He; [|discriminate].
      destruct (e_owner e); inv H; [apply vsame_refl|]. cbn. apply acquire_vsame; auto.
    + unfold do_key_wait in H. destruct (aget k (s_ents s)) as [e|] eqn:He; [|discriminate].
      destruct (e_owner e); inv H; cbn; [eapply vsame_aset; eauto|apply acquire_vsame; auto].
    + unfold do_queued in H. destruct (aget k (s_ents s)) as [e|] eqn:He; [|discriminate].
      destruct (own_is_waiter _ a); inv H. cbn. apply acquire_vsame; auto.
    + unfold do_cleanup in H. destruct (cleanup_ents (s_ents s) k) as [[ents|]|] eqn:Hc; inv H.
      cbn. eapply cleanup_vsame; eauto.
    + destruct (cancel_ents c (s_ents s) a k) as [[ents|]|] eqn:Hc; inv H. cbn. eapply cancel_vsame; eauto.
    + unfold do_drops in H. destruct gs as [|g rest]; [discriminate|].
      destruct (unlock_cs c s g) as [[s1|]|] eqn:Hu; try discriminate.
      pose proof (unlock_cs_vsame c s g s1 Hu) as V.
      destruct rest; [destruct af|]; inv H; auto.
      cbn. eapply vsame_trans; [apply V|apply begin_unlock_vsame].
    + unfold do_scan in H. destruct (iter_order c s o0); [|discriminate].
      pose proof (lock_keys_vsame (expired_keys (s_ents s) l cutoff) s) as V.
      destruct (lock_keys s _) as [s1 ll]. inv H. apply V.
    + unfold do_stream_enter in H. destruct (iter_order c s o0); inv H. cbn. apply clone_all_vsame.
    + inv H. apply vsame_refl.
    + destruct (iter_order c s o0); inv H. apply vsame_refl.
  - (* sub *) unfold do_sub in H. destruct (aget a (s_ops s)) as [p|] eqn:Ha; [|discriminate].
    destruct p; try discriminate.
    + assert (P : do_sub_poll c s a subs k = ROk s' o -> vsame (s_ents s) (s_ents s')).
      { intros H1. unfold do_sub_poll in H1. destruct (aget k subs) as [st|]; [|discriminate].
        destruct (aget k (s_ents s)) as [e|] eqn:He; [|discriminate].
        destruct st.
        - destruct (e_owner e).
          + inv H1. cbn. eapply vsame_aset; eauto.
          + cbn [new_guard] in H1. destruct (val_of e); inv H1; cbn; apply acquire_vsame; auto.
        - destruct (own_is_waiter _ a); [|discriminate]. cbn [new_guard] in H1.
          destruct (val_of e); inv H1; cbn; apply acquire_vsame; auto.
        - destruct (unlock_cs c s g) as [[s1|]|] eqn:Hu; inv H1. cbn. eapply unlock_cs_vsame; eauto. }
      destruct (aget k subs) as [[| |g]|]; try (apply cs_ok in H); apply P; auto.
    + apply cs_ok in H. unfold do_sub_drop in H. destruct (aget k subs) as [st|]; [|discriminate].
      destruct st; try discriminate;
        (destruct (cancel_ents c (s_ents s) a k) as [[ents|]|] eqn:Hc; try discriminate;
         pose proof (cancel_vsame c _ a k ents Hc) as V;
         destruct (adel k subs); inv H; auto).
  - unfold do_pollend in H. destruct (aget a (s_ops s)) as [[]|]; try discriminate. destruct subs; inv H; apply vsame_refl.
  - unfold do_cancel in H. destruct (aget a (s_ops s)) as [[]|]; try discriminate.
    + destruct (sh_is_async sh); inv H; apply vsame_refl.
    + destruct (sh_is_async sh); inv H; apply vsame_refl.
    + destruct (existsb _ subs); [discriminate|]. destruct subs; inv H; apply vsame_refl.
  - unfold do_cbreturn in H. destruct (aget a (s_ops s)) as [[]|]; try discriminate.
    destruct hold.
    + destruct offered as [|g rest]; [discriminate|]. destruct (all_live s _ && _)%bool; inv H.
      cbn. apply begin_unlock_vsame.
    + destruct r; inv H; apply vsame_refl.
  - destruct (Z.leb 0 d); inv H. apply vsame_refl.
Qed.

(* a guard operation changes at most the value of the guard's own key *)
Theorem guard_op_local c s g op s' o k0 :
  step c s (LGuardOp g op) = ROk s' o -> aget g (s_guards s) = Some k0 ->
  forall k, k <> k0 -> vof s' k = vof s k.
Proof.
  cbn. unfold do_guard_op. intros H Hg k Hne. destruct (negb (guard_live s g)); [discriminate|].
  rewrite Hg in H. destruct (aget k0 (s_ents s)) as [e|] eqn:He; [|discriminate].
  unfold vof, vof_e.
  destruct op; try (destruct (e_val e) as [[v0 st]|]); inv H; cbn; rewrite ?aget_aset_neq by auto; auto.
Qed.

(* the value a new guard reports is the stored one *)
Theorem guard_obs_value c s l s' g k v :
  Inv s -> step c s l = ROk s' (OGuard g k v) -> v = vof s k.
Proof.
  intros HI H. unfold vof, vof_e. destruct l; cbn [step] in H.
  - unfold do_start in H. destruct (amem a (s_ops s)); [discriminate|].
    destruct c0; try (inv H; fail).
    + destruct (lim_ok lim); inv H.
    + destruct (guard_live s g0); inv H.
    + destruct (c_lru c && Z.leb 0 d)%bool; [|discriminate]. destruct (cutoff_of _ _); inv H.
  - unfold do_resume in H. destruct (aget a (s_ops s)) as [p|] eqn:Ha; [|discriminate].
    assert (L : forall sh k0, do_lookup c s a sh k0 = ROk s' (OGuard g k v) -> v = vof_e (s_ents s) k).
    { intros sh k0 H1. unfold do_lookup in H1. destruct (aget k0 (s_ents s)) as [e|] eqn:He; [inv H1|].
      cbn [new_guard] in H1. inv H1. unfold vof_e. rewrite He. auto. }
    destruct p; try discriminate; try (apply cs_ok in H).
    + unfold do_enter in H. destruct lim as [n|]; [|eapply L; eauto].
      destruct (length (s_ents s) - (n - 1)); [eapply L; eauto|].
      destruct (iter_order c s o); [|discriminate].
      destruct (evict_scan (s_ents s) l (S n0)) as [[[|k1 ks]|]|]; try discriminate; [eapply L; eauto|].
      destruct (lock_keys s (k1 :: ks)). inv H.
    + unfold do_key_try in H. destruct (aget k0 (s_ents s)) as [e|] eqn:He; [|discriminate].
      destruct (e_owner e); inv H. rewrite He. auto.
    + unfold do_key_wait in H. destruct (aget k0 (s_ents s)) as [e|] eqn:He; [|discriminate].
      destruct (e_owner e); inv H. rewrite He. auto.
    + unfold do_queued in H. destruct (aget k0 (s_ents s)) as [e|] eqn:He; [|discriminate].
      destruct (own_is_waiter _ a); inv H. rewrite He. auto.
    + unfold do_cleanup in H. destruct (cleanup_ents (s_ents s) k0) as [[ents|]|]; inv H.
    + destruct (cancel_ents c (s_ents s) a k0) as [[ents|]|]; inv H.
    + unfold do_drops in H. destruct gs as [|g0 rest]; [discriminate|].
      destruct (unlock_cs c s g0) as [[s1|]|] eqn:Hu; try discriminate.
      destruct rest; [destruct af|]; inv H.
    + unfold do_scan in H. destruct (iter_order c s o); [|discriminate]. destruct (lock_keys s _). inv H.
    + unfold do_stream_enter in H. destruct (iter_order c s o); inv H.
    + inv H.
    + destruct (iter_order c s o); inv H.
  - unfold do_sub in H. destruct (aget a (s_ops s)) as [p|]; [|discriminate].
    destruct p; try discriminate.
    + assert (P : do_sub_poll c s a subs k0 <> ROk s' (OGuard g k v)).
      { unfold do_sub_poll. destruct (aget k0 subs) as [st|]; [|discriminate].
        destruct (aget k0 (s_ents s)) as [e|]; [|discriminate].
        destruct st.
        - destruct (e_owner e); [discriminate|]. cbn [new_guard]. destruct (val_of e); discriminate.
        - destruct (own_is_waiter _ a); [|discriminate]. cbn [new_guard]. destruct (val_of e); discriminate.
        - destruct (unlock_cs c s g0) as [[s1|]|]; discriminate. }
      destruct (aget k0 subs) as [[| |g0]|]; try (apply cs_ok in H); contradiction.
    + apply cs_ok in H. unfold do_sub_drop in H. destruct (aget k0 subs) as [st|]; [|discriminate].
      destruct st; try discriminate;
        (destruct (cancel_ents c (s_ents s) a k0) as [[ents|]|]; try discriminate; destruct (adel k0 subs); inv H).
  - unfold do_pollend in H. destruct (aget a (s_ops s)) as [[]|]; try discriminate. destruct subs; inv H.
  - unfold do_cancel in H. destruct (aget a (s_ops s)) as [[]|]; try discriminate.
    + destruct (sh_is_async sh); inv H.
    + destruct (sh_is_async sh); inv H.
    + destruct (existsb _ subs); [discriminate|]. destruct subs; inv H.
  - unfold do_guard_op in H. destruct (negb (guard_live s g0)); [discriminate|].
    destruct (aget g0 (s_guards s)) as [k0|]; [|discriminate].
    destruct (aget k0 (s_ents s)) as [e|]; [|discriminate].
    destruct op; try (destruct (e_val e) as [[? ?]|]); inv H.
  - unfold do_cbreturn in H. destruct (aget a (s_ops s)) as [[]|]; try discriminate.
    destruct hold.
    + destruct offered; [discriminate|]. destruct (all_live s _ && _)%bool; inv H.
    + destruct r; inv H.
  - destruct (Z.leb 0 d); inv H.
  - unfold do_consume in H. destruct (s_ops s); [|discriminate]. destruct (s_guards s); [|discriminate].
    destruct (negb (inv2_ok (s_ents s))); [discriminate|]. destruct (iter_order c s o); [|discriminate].
    destruct (consume_list (s_ents s) l); inv H.
Qed.
