(* C11 — lock_all_entries yields each live entry of the snapshot exactly once. *)
From Coq Require Import List Arith ZArith.
From LK Require Import AList Model Inv StepInv PropLemmas DropInv Stream.
Import ListNotations.

(* The call takes its snapshot in one critical section: exactly the keys present then (valued or locked),
   each once; the stream's pending set is that key list. *)
Theorem C11_snapshot : forall c s a o s' ks,
  reachable c s -> aget a (s_ops s) = Some PStreamEnter -> step c s (LResume a o) = ROk s' (OStream ks) ->
  NoDup ks /\ (forall k, In k ks <-> In k (akeys (s_ents s))) /\
  aget a (s_ops s') = Some (PStream (init_subs ks)) /\ akeys (s_ents s') = akeys (s_ents s).
Proof. intros c s a o s' ks H. exact (stream_snapshot c s a o s' ks (reachable_inv c s H)). Qed.

(* Every step of the stream concerns a key of its pending set; the pending set never grows (so no key
   that appeared later is ever yielded); a yielded item is for that key, carries the stored value (hence
   has one), its guard is live, and the key leaves the pending set (hence is yielded at most once). *)
Theorem C11_stream_step : forall c s a subs k o s' ob,
  aget a (s_ops s) = Some (PStream subs) -> step c s (LSub a k o) = ROk s' ob ->
  aget k subs <> None /\
  exists subs', aget a (s_ops s') = Some (PStream subs') /\
    (forall k', aget k' subs' <> None -> aget k' subs <> None) /\
    (forall k', k' <> k -> aget k' subs' = aget k' subs) /\
    match ob with
    | OItem g k' v => k' = k /\ vof s k = Some v /\ In (g, k) (s_guards s') /\ aget k subs' = None
    | ONothing => True
    | _ => False
    end.
Proof. exact stream_sub_step. Qed.

Theorem C11_never_yields_valueless : forall c s a subs k o s' g k' v,
  aget a (s_ops s) = Some (PStream subs) -> step c s (LSub a k o) = ROk s' (OItem g k' v) -> vof s k <> None.
Proof. exact stream_valueless_not_yielded. Qed.

(* The stream reports its end exactly when its pending set is empty. *)
Theorem C11_end_iff_done : forall c s a subs s' ob,
  aget a (s_ops s) = Some (PStream subs) -> step c s (LPollEnd a) = ROk s' ob ->
  s' = s /\ (ob = OEnd <-> subs = []) /\ (ob = OPending <-> subs <> []).
Proof. exact stream_pollend. Qed.

(* Every pending key makes progress as soon as its mutex is free or handed to the stream: the first poll of
   its future, the acquisition after a hand-over, and the drop of a valueless guard are always enabled.
   So the stream reaches its end once the guards it waits for have been dropped. *)
Theorem C11_first_poll_enabled : forall c s a subs k o,
  reachable c s -> aget a (s_ops s) = Some (PStream subs) -> aget k subs = Some SInit ->
  exists s' ob, step c s (LSub a k o) = ROk s' ob.
Proof. intros c s a subs k o H. exact (stream_first_poll_enabled c s a subs k o (reachable_inv c s H)). Qed.

Theorem C11_handed_poll_enabled : forall c s a subs k e o,
  aget a (s_ops s) = Some (PStream subs) -> aget k subs = Some SQueued ->
  aget k (s_ents s) = Some e -> e_owner e = Some (OwnW a) ->
  exists s' ob, step c s (LSub a k o) = ROk s' ob.
Proof. exact stream_handed_poll_enabled. Qed.

Theorem C11_valueless_guard_is_dropped : forall c s a subs k g o,
  reachable c s -> aget a (s_ops s) = Some (PStream subs) -> aget k subs = Some (SUnlocking g) ->
  aget k (s_ents s) <> None ->
  exists s' ob, step c s (LSub a k o) = ROk s' ob.
Proof.
  intros c s a subs k g o H. exact (stream_unlock_enabled c s a subs k g o (reachable_inv c s H) (reachable_dinv c s H)).
Qed.

(* End to end, over the whole life of one stream and any interleaving with other agents (otrace = a run
   with its observations; the stream is agent a, not cancelled during the run): the keys it yields are
   pairwise distinct, every one of them was waiting in the pending set at the start and has left it, the
   pending set only shrinks, and every key that was waiting at the start has been yielded, or the stream
   obtained its lock and found no value under it (locked_valueless: that step, its pre-state value None, the
   guard it then holds), or it is still waiting. *)
Theorem C11_exactly_once : forall c a tr s0 s' subs0,
  otrace c s0 tr s' -> aget a (s_ops s0) = Some (PStream subs0) ->
  (forall e, In e tr -> ev_label e <> LCancel a) ->
  exists subs', aget a (s_ops s') = Some (PStream subs') /\
    NoDup (yields a tr) /\
    (forall k, In k (yields a tr) -> waiting_sub (aget k subs0) /\ aget k subs' = None) /\
    (forall k, aget k subs' <> None -> aget k subs0 <> None) /\
    (forall k, waiting_sub (aget k subs0) ->
       In k (yields a tr) \/ (exists e, In e tr /\ locked_valueless a k e) \/ waiting_sub (aget k subs')).
Proof. exact stream_exactly_once. Qed.

(* For a stream taken from its creation (pending set = the snapshot ks of C11_snapshot) to the point where it
   reports its end (pending set empty, C11_end_iff_done): the yielded keys are distinct, all from the
   snapshot, and every snapshot key was yielded unless it had no value when the stream locked it. *)
Theorem C11_complete_at_end : forall c a tr s0 s' ks,
  otrace c s0 tr s' -> aget a (s_ops s0) = Some (PStream (init_subs ks)) ->
  (forall e, In e tr -> ev_label e <> LCancel a) ->
  aget a (s_ops s') = Some (PStream []) ->
  NoDup (yields a tr) /\ (forall k, In k (yields a tr) -> In k ks) /\
  (forall k, In k ks -> In k (yields a tr) \/ exists e, In e tr /\ locked_valueless a k e).
Proof. exact stream_fresh_complete. Qed.

(* While items are pending, other calls stay enabled: C03_only_key_waits_block applies to every other agent. *)

Example C11_witness :
  exists s, run (mkCfg true)
    [LStart 0 (CLock ShTry 1 None); LResume 0 []; LGuardOp 0 (GInsert 10%Z); LStart 1 (CDrop 0); LResume 1 [];
     LStart 2 (CLock ShTry 2 None); LResume 2 [];
     LStart 3 CStream; LResume 3 []; LSub 3 1 []; LSub 3 2 []; LPollEnd 3;
     LStart 4 (CDrop 1); LResume 4 []; LSub 3 2 []; LSub 3 2 []; LPollEnd 3]
  = RunOk s [ONothing; OGuard 0 1 None; OVal None; ONothing; OUnit; ONothing; OGuard 1 2 None;
             ONothing; OStream [1; 2]; OItem 2 1 10%Z; ONothing; OPending;
             ONothing; OUnit; ONothing; ONothing; OEnd].
Proof. eexists. vm_compute. reflexivity. Qed.

(* non-vacuity of the end-to-end theorems: the run of C11_witness from the creation of the stream on *)
Definition c11_s0 : state :=
  match run (mkCfg true)
    [LStart 0 (CLock ShTry 1 None); LResume 0 []; LGuardOp 0 (GInsert 10%Z); LStart 1 (CDrop 0); LResume 1 [];
     LStart 2 (CLock ShTry 2 None); LResume 2 []; LStart 3 CStream; LResume 3 []]
  with RunOk s _ => s | _ => init end.

Example C11_trace_witness :
  exists tr s',
    otrace (mkCfg true) c11_s0 tr s' /\ aget 3 (s_ops c11_s0) = Some (PStream (init_subs [1; 2])) /\
    (forall e, In e tr -> ev_label e <> LCancel 3) /\ aget 3 (s_ops s') = Some (PStream []) /\
    yields 3 tr = [1] /\ exists e, In e tr /\ locked_valueless 3 2 e.
Proof.
  eexists. eexists. split.
  { eapply ot_cons with (l := LSub 3 1 []); [vm_compute; reflexivity|].
    eapply ot_cons with (l := LSub 3 2 []); [vm_compute; reflexivity|].
    eapply ot_cons with (l := LStart 4 (CDrop 1)); [vm_compute; reflexivity|].
    eapply ot_cons with (l := LResume 4 []); [vm_compute; reflexivity|].
    eapply ot_cons with (l := LSub 3 2 []); [vm_compute; reflexivity|].
    eapply ot_cons with (l := LSub 3 2 []); [vm_compute; reflexivity|].
    apply ot_nil. }
  split; [vm_compute; reflexivity|].
  split; [intros e He; cbn [In] in He; repeat (destruct He as [<-|He]; [cbn; discriminate|]); destruct He|].
  split; [vm_compute; reflexivity|].
  split; [vm_compute; reflexivity|].
  eexists. split; [right; right; right; right; left; reflexivity|].
  cbn [locked_valueless]. do 4 eexists. split; [reflexivity|]. split; [vm_compute; reflexivity|]. split; [right; vm_compute; reflexivity|].
  split; [vm_compute; reflexivity|]. split; [vm_compute; reflexivity|]. split; [vm_compute; reflexivity|]. vm_compute. auto.
Qed.
