(* C07 — soft limit: when the eviction callback runs, with what, and the resulting bound. *)
From Coq Require Import List Arith ZArith.
From LK Require Import AList Model Inv StepInv PropLemmas Evict DropInv CoopEnabled.
Import ListNotations.

(* The only step that invokes the callback is the first critical section of a soft-limited lock call
   (pc PEnter with limit n).  If it does (observation OOffered l), then the container held at least n
   entries-or-locked-keys, l is not empty, has at most len-(n-1) elements, its keys are distinct and are
   exactly the first len-(n-1) evictable (unlocked, valued) entries in iteration order; each offered
   entry had no guard before, is now held by the offered guard, and is reported with its stored value. *)
Theorem C07_offered : forall c s a sh k n o s' l,
  reachable c s -> aget a (s_ops s) = Some (PEnter sh k (Some n)) ->
  step c s (LResume a o) = ROk s' (OOffered l) ->
  exists order,
    iter_order c s o = Some order /\
    n <= length (s_ents s) /\
    l <> [] /\
    length l <= length (s_ents s) - (n - 1) /\
    map okey l = firstn (length (s_ents s) - (n - 1)) (filter (evictable_b (s_ents s)) order) /\
    NoDup (map okey l) /\
    (forall g k0 v, In (g, k0, v) l ->
        evictable_b (s_ents s) k0 = true /\ vof s k0 = Some v /\
        (forall g', ~ In (g', k0) (s_guards s)) /\ In (g, k0) (s_guards s')) /\
    aget a (s_ops s') = Some (PInCb sh k n (map ogid l)) /\
    akeys (s_ents s') = akeys (s_ents s).
Proof. intros c s a sh k n o s' l H. exact (enter_offered c s a sh k n o s' l (reachable_inv c s H)). Qed.

(* No callback below the limit or when nothing is evictable: the call goes on to the look-up in the same
   critical section. *)
Theorem C07_no_callback : forall c s a sh k n o s' ob,
  reachable c s -> aget a (s_ops s) = Some (PEnter sh k (Some n)) ->
  step c s (LResume a o) = ROk s' ob -> (forall l, ob <> OOffered l) ->
  (length (s_ents s) <= n - 1 \/ (forall k0, In k0 (akeys (s_ents s)) -> evictable_b (s_ents s) k0 = false)) /\
  do_lookup c s a sh k = ROk s' ob.
Proof. intros c s a sh k n o s' ob H. exact (enter_proceeds c s a sh k n o s' ob (reachable_inv c s H)). Qed.

(* Without a limit nothing is ever offered. *)
Theorem C07_no_limit_no_callback : forall c s a sh k o s' ob,
  aget a (s_ops s) = Some (PEnter sh k None) -> step c s (LResume a o) = ROk s' ob -> forall l, ob <> OOffered l.
Proof.
  intros c s a sh k o s' ob Ha H l. cbn in H. unfold do_resume in H. rewrite Ha in H. apply cs_ok in H.
  cbn in H. unfold do_lookup in H. destruct (aget k (s_ents s)); [inversion H; discriminate|].
  cbn [new_guard] in H. inversion H. discriminate.
Qed.

(* When the call proceeds to lock the requested key, the container holds at most
   max(n, non-evictable entries + 1) entries (non-evictable = locked, or valueless and referenced). *)
Theorem C07_bound : forall c s a sh k n o s' ob,
  reachable c s -> 1 <= n -> aget a (s_ops s) = Some (PEnter sh k (Some n)) ->
  step c s (LResume a o) = ROk s' ob -> (forall l, ob <> OOffered l) ->
  length (s_ents s') <= Nat.max n (nonevictable s + 1).
Proof. intros c s a sh k n o s' ob H. exact (enter_bound c s a sh k n o s' ob (reachable_inv c s H)). Qed.

(* A round with a cooperative callback -- one that removes the value of every guard it is given, returns Ok
   and thereby drops the guards -- lowers the number of evictable (unlocked, valued) entries by the number of
   guards offered (>= 1), does not grow the map, and brings the call back to its eviction step ... *)
Theorem C07_cooperative_round : forall c s a sh k n o s1 l o' s',
  reachable c s -> aget a (s_ops s) = Some (PEnter sh k (Some n)) ->
  step c s (LResume a o) = ROk s1 (OOffered l) ->
  steps c s1 (map (fun g => LGuardOp g GRemove) (map ogid l) ++ [LCbReturn a CbOk true]
              ++ repeat (LResume a o') (length l)) s' ->
  evictable_n s' + length l = evictable_n s /\ 1 <= length l /\
  length (s_ents s') <= length (s_ents s) /\
  aget a (s_ops s') = Some (PEnter sh k (Some n)).
Proof. intros c s a sh k n o s1 l o' s' H. exact (coop_round_progress c s a sh k n o s1 l o' s' (reachable_inv c s H)). Qed.

(* ... so the eviction loop of a soft-limited call with a cooperative callback invokes the callback at most as
   many times as there are evictable entries; when it then proceeds (C07_no_callback), C07_bound gives
   "at most max(N, locked keys + 1) entries" with the requested key locked. *)
Theorem C07_cooperative_loop_terminates : forall c a sh k n s m s'',
  reachable c s -> aget a (s_ops s) = Some (PEnter sh k (Some n)) -> coop_rounds c a s m s'' ->
  m + evictable_n s'' <= evictable_n s /\ length (s_ents s'') <= length (s_ents s) /\
  aget a (s_ops s'') = Some (PEnter sh k (Some n)) /\ Inv s''.
Proof. intros c a sh k n s m s'' H. exact (coop_rounds_bounded c a sh k n s m s'' (reachable_inv c s H)). Qed.

(* Existence: in every reachable state every step of such a cooperative round is enabled ... *)
Theorem C07_cooperative_round_enabled : forall c s a sh k n o s1 l o',
  reachable c s -> aget a (s_ops s) = Some (PEnter sh k (Some n)) ->
  step c s (LResume a o) = ROk s1 (OOffered l) ->
  exists s', steps c s1 (map (fun g => LGuardOp g GRemove) (map ogid l) ++ [LCbReturn a CbOk true]
                          ++ repeat (LResume a o') (length l)) s'.
Proof.
  intros c s a sh k n o s1 l o' H.
  exact (coop_round_enabled c s a sh k n o s1 l o' (reachable_inv c s H) (reachable_dinv c s H)).
Qed.

(* ... and the loop as a whole exists and ends: from any reachable state in which a soft-limited call is
   about to enter its critical section there is a run of m <= (number of evictable entries) cooperative
   rounds after which the call's next step is enabled and is not another callback (it is the look-up,
   to which C07_bound applies). *)
Theorem C07_cooperative_loop_reaches_lookup : forall c a sh k n s,
  reachable c s -> aget a (s_ops s) = Some (PEnter sh k (Some n)) ->
  exists m s'', coop_rounds c a s m s'' /\ m <= evictable_n s /\
    exists s3 ob, step c s'' (LResume a (akeys (s_ents s''))) = ROk s3 ob /\ forall l, ob <> OOffered l.
Proof.
  intros c a sh k n s H.
  exact (coop_loop_reaches_lookup c a sh k n s (reachable_inv c s H) (reachable_dinv c s H)).
Qed.

(* non-vacuity: limit 2, two valued unlocked entries, a third key is locked: one entry is offered *)
Example C07_witness :
  exists s, run (mkCfg true)
    [LStart 0 (CLock ShTry 1 None); LResume 0 []; LGuardOp 0 (GInsert 10); LStart 1 (CDrop 0); LResume 1 [];
     LStart 2 (CLock ShTry 2 None); LResume 2 []; LGuardOp 1 (GInsert 20); LStart 3 (CDrop 1); LResume 3 [];
     LStart 4 (CLock ShBlocking 3 (Some 2)); LResume 4 []]
  = RunOk s [ONothing; OGuard 0 1 None; OVal None; ONothing; OUnit; ONothing; OGuard 1 2 None; OVal None; ONothing; OUnit;
             ONothing; OOffered [(2, 1, 10%Z)]].
Proof. eexists. vm_compute. reflexivity. Qed.
