(* No library-made deadlock, as a reachability theorem: from EVERY reachable state the client can bring the
   container to rest -- no call in flight, no guard alive -- by doing nothing but
     - letting the calls that are in flight run (LResume / LSub),
     - letting eviction callbacks return (with an error, keeping nothing),
     - dropping guards it owns, and dropping streams that have delivered everything;
   it never has to start a lock call and never has to cancel a pending one.  So no state exists in which
   the calls in flight wait for each other: whatever is blocked is blocked behind a guard the client owns,
   and once that guard is dropped the waiter runs (C03), also when several soft-limited calls are in flight
   at once (C08).

   Proof: a lexicographic measure (calls that still have to take their snapshot, total remaining work of the
   calls in flight, number of guards) decreases with every step of the draining strategy, and the strategy
   always has a step (enabledness lemmas of PropLemmas.v / DropInv.v, plus a third invariant SInv about
   the shape of program counters). *)
From Coq Require Import List Arith ZArith Bool Lia.
From LK Require Import AList AListFacts Model Observe Inv StepInv NoPanic PropLemmas Seq DropInv Stream.
Import ListNotations.

(* ------------------------------------------------------------------ *)
(* sums over association lists *)

Section ASum.
  Context {V : Type} (f : V -> nat).

  Fixpoint asum (m : list (nat * V)) : nat :=
    match m with [] => 0 | (_, v) :: t => f v + asum t end.

  Lemma asum_adel_notin k (m : list (nat * V)) : ~ In k (akeys m) -> adel k m = m.
  Proof.
    induction m as [|[k' v'] t IH]; cbn; auto. intros H.
    destruct (Nat.eqb_spec k k'); [exfalso; apply H; cbn; left; auto|]. f_equal. apply IH. intros Hin. apply H. cbn. right. exact Hin.
  Qed.

  Lemma asum_adel k v m : NoDup (akeys m) -> aget k m = Some v -> asum (adel k m) + f v = asum m.
  Proof.
    induction m as [|[k' v'] t IH]; cbn; [discriminate|]. intros Hnd H. inversion Hnd; subst.
    destruct (Nat.eqb_spec k k').
    - inversion H; subst. rewrite asum_adel_notin; auto. lia.
    - cbn. specialize (IH H3 H). lia.
  Qed.

  Lemma asum_aset k v v' m : aget k m = Some v -> asum (aset k v' m) + f v = asum m + f v'.
  Proof.
    induction m as [|[k' v0] t IH]; cbn; [discriminate|]. intros H.
    destruct (Nat.eqb_spec k k').
    - inversion H; subst. cbn. lia.
    - cbn. specialize (IH H). lia.
  Qed.

  Lemma asum_aset_new k v' m : aget k m = None -> asum (aset k v' m) = asum m + f v'.
  Proof.
    induction m as [|[k' v0] t IH]; cbn; [intros; lia|]. intros H.
    destruct (Nat.eqb_spec k k'); [discriminate|]. cbn. rewrite IH; auto. lia.
  Qed.
End ASum.

(* ------------------------------------------------------------------ *)
(* remaining work of a call *)

Definition sub_w (st : sub) : nat := match st with SInit => 3 | SQueued => 2 | SUnlocking _ => 1 end.
Definition after_w (af : after) : nat := match af with AReenter _ _ _ => 7 | _ => 1 end.

Definition pc_w (p : pc) : nat :=
  match p with
  | PEnter _ _ _ => 6
  | PInCb _ _ _ _ => 5
  | PKeyTry _ _ | PKeyWait _ _ => 4
  | PQueued _ _ | PCleanup _ _ | PCancel _ => 3
  | PDrops gs af => length gs + after_w af
  | PScan _ | PCount | PKeys => 1
  | PStreamEnter => 0
  | PStream subs | PStreamDrop subs => 1 + asum sub_w subs
  end.

Definition se_w (p : pc) : nat := match p with PStreamEnter => 1 | _ => 0 end.

Definition m_se (s : state) : nat := asum se_w (s_ops s).
Definition m_w (s : state) : nat := asum pc_w (s_ops s).
Definition m_g (s : state) : nat := length (s_guards s).

(* lexicographic order on (m_se, m_w, m_g) *)
Definition mlt (s' s : state) : Prop :=
  m_se s' < m_se s \/ (m_se s' = m_se s /\ (m_w s' < m_w s \/ (m_w s' = m_w s /\ m_g s' < m_g s))).

(* p' is what is left to do after a step from p *)
Definition pc_lt (p' p : pc) : Prop :=
  se_w p' = 0 /\ (se_w p = 1 \/ (se_w p = 0 /\ pc_w p' < pc_w p)).

(* shape of program counters (third invariant) *)
Definition pc_shape (p : pc) : Prop :=
  match p with
  | PDrops gs _ => gs <> []
  | PStreamDrop subs => subs <> [] /\ sub_drops subs = []
  | _ => True
  end.

Lemma sub_drops_adel k subs : sub_drops subs = [] -> sub_drops (adel k subs) = [].
Proof.
  induction subs as [|[k' st] t IH]; cbn; auto. intros H. apply app_eq_nil in H as [H1 H2].
  destruct (Nat.eqb k k'); auto. cbn. rewrite H1. cbn. auto.
Qed.

Lemma sub_drops_nil_aget subs k g : sub_drops subs = [] -> aget k subs <> Some (SUnlocking g).
Proof.
  intros H E. apply aget_In in E. assert (In g (sub_drops subs)) by (apply sub_drops_in; eauto).
  rewrite H in H0. destruct H0.
Qed.

Lemma existsb_unlocking_false subs :
  existsb (fun ks : key * sub => match snd ks with SUnlocking _ => true | _ => false end) subs = false ->
  sub_drops subs = [].
Proof.
  induction subs as [|[k st] t IH]; cbn; auto. destruct st; cbn; auto. discriminate.
Qed.

(* ------------------------------------------------------------------ *)
(* what a step of an agent does to its own program counter *)

Ltac ops_eq :=
  cbn [s_ops set_pc fin with_ops with_ents with_guards with_gid with_clock new_guard fst snd];
  rewrite ?begin_unlock_ops; auto.

Lemma resume_shape c s a p o s' ob :
  aget a (s_ops s) = Some p -> pc_shape p -> step c s (LResume a o) = ROk s' ob ->
  s_ops s' = adel a (s_ops s) \/
  exists p', s_ops s' = aset a p' (s_ops s) /\ pc_lt p' p /\ pc_shape p'.
Proof.
  intros Ha Hsh H. cbn [step] in H. unfold do_resume in H. rewrite Ha in H.
  assert (L : forall sh k0 lim s' o, p = PEnter sh k0 lim -> do_lookup c s a sh k0 = ROk s' o ->
            s_ops s' = adel a (s_ops s) \/
            exists p', s_ops s' = aset a p' (s_ops s) /\ pc_lt p' p /\ pc_shape p').
  { intros sh k0 lim s1 o1 -> H1. unfold do_lookup in H1. destruct (aget k0 (s_ents s)) as [e0|].
    - inv H1. right. destruct (sh_is_try sh); eexists; (split; [ops_eq|]); (split; [|exact I]);
        unfold pc_lt; cbn; split; auto; right; split; auto; lia.
    - cbn [new_guard] in H1. inv H1. left. ops_eq. }
  destruct p; try discriminate; try (apply cs_ok in H).
  - (* PEnter *)
    unfold do_enter in H. destruct lim as [n|]; [|eapply L; eauto].
    destruct (length (s_ents s) - (n - 1)); [eapply L; eauto|].
    destruct (iter_order c s o); [|discriminate].
    destruct (evict_scan (s_ents s) l (S n0)) as [[[|k1 ks]|]|]; try discriminate; [eapply L; eauto|].
    destruct (lock_keys_ops_guards (k1 :: ks) s) as [V _].
    destruct (lock_keys s (k1 :: ks)) as [s1 off]. cbn [fst] in V. inv H. right.
    eexists. split; [ops_eq; rewrite V; reflexivity|]. split; [|exact I].
    unfold pc_lt; cbn; split; auto; right; split; auto; lia.
  - unfold do_key_try in H. destruct (aget k (s_ents s)) as [e0|]; [|discriminate].
    destruct (e_owner e0); inv H.
    + right. eexists. split; [ops_eq|]. split; [|exact I]. unfold pc_lt; cbn; split; auto; right; split; auto; lia.
    + left. ops_eq.
  - unfold do_key_wait in H. destruct (aget k (s_ents s)) as [e0|]; [|discriminate].
    destruct (e_owner e0); inv H.
    + right. eexists. split; [ops_eq|]. split; [|exact I]. unfold pc_lt; cbn; split; auto; right; split; auto; lia.
    + left. ops_eq.
  - unfold do_queued in H. destruct (aget k (s_ents s)) as [e0|]; [|discriminate].
    destruct (own_is_waiter _ a); inv H. left. ops_eq.
  - unfold do_cleanup in H. destruct (cleanup_ents (s_ents s) k) as [[ents|]|]; inv H. left. ops_eq.
  - destruct (cancel_ents c (s_ents s) a k) as [[ents|]|]; inv H. left. ops_eq.
  - (* PDrops *)
    unfold do_drops in H. destruct gs as [|g rest]; [discriminate|].
    destruct (unlock_cs c s g) as [[s1|]|] eqn:Hu; try discriminate.
    pose proof (unlock_cs_ops c s g s1 Hu) as V.
    destruct rest as [|g' rest']; [destruct af|]; inv H.
    + left. ops_eq. rewrite V. auto.
    + left. ops_eq. rewrite V. auto.
    + left. ops_eq. rewrite V. auto.
    + right. eexists. split; [ops_eq; rewrite V; reflexivity|]. split; [|exact I].
      unfold pc_lt; cbn; split; auto; right; split; auto; lia.
    + right. eexists. split; [ops_eq; rewrite V; reflexivity|]. split; [|cbn; discriminate].
      unfold pc_lt; cbn; split; auto; right; split; auto; lia.
  - unfold do_scan in H. destruct (iter_order c s o); [|discriminate].
    destruct (lock_keys_ops_guards (expired_keys (s_ents s) l cutoff) s) as [V _].
    destruct (lock_keys s _) as [s1 ll]. cbn [fst] in V. inv H. left. ops_eq. rewrite V. auto.
  - unfold do_stream_enter in H. destruct (iter_order c s o); inv H. right.
    eexists. split; [ops_eq|]. split; [|exact I]. unfold pc_lt; cbn; auto.
  - inv H. left. ops_eq.
  - destruct (iter_order c s o); inv H. left. ops_eq.
Qed.

Lemma sub_shape c s a p k o s' ob :
  aget a (s_ops s) = Some p -> pc_shape p -> NoDup (akeys (subs_of p)) ->
  step c s (LSub a k o) = ROk s' ob ->
  s_ops s' = adel a (s_ops s) \/
  exists p', s_ops s' = aset a p' (s_ops s) /\ pc_lt p' p /\ pc_shape p'.
Proof.
  intros Ha Hsh Hnd H. cbn [step] in H. unfold do_sub in H. rewrite Ha in H.
  destruct p; try discriminate; cbn [subs_of] in Hnd.
  - (* PStream *)
    assert (P : do_sub_poll c s a subs k = ROk s' ob ->
                exists p', s_ops s' = aset a p' (s_ops s) /\ pc_lt p' (PStream subs) /\ pc_shape p').
    { intros H1. unfold do_sub_poll in H1. destruct (aget k subs) as [st|] eqn:Hk; [|discriminate].
      destruct (aget k (s_ents s)) as [e0|]; [|discriminate].
      pose proof (asum_adel sub_w k st subs Hnd Hk) as Wd.
      assert (Ws : forall st', asum sub_w (aset k st' subs) + sub_w st = asum sub_w subs + sub_w st')
        by (intros; apply asum_aset; auto).
      destruct st.
      - destruct (e_owner e0).
        + inv H1. eexists. split; [ops_eq|]. split; [|exact I].
          unfold pc_lt; cbn [se_w pc_w]. specialize (Ws SQueued). cbn in Ws, Wd. split; auto. right. split; auto. lia.
        + cbn [new_guard] in H1. destruct (val_of e0); inv H1; eexists; (split; [ops_eq|]); (split; [|exact I]);
            unfold pc_lt; cbn [se_w pc_w]; split; auto; right; split; auto.
          * cbn in Wd. lia.
          * specialize (Ws (SUnlocking (s_gid s))). cbn in Ws. lia.
      - destruct (own_is_waiter _ a); [|discriminate]. cbn [new_guard] in H1.
        destruct (val_of e0); inv H1; eexists; (split; [ops_eq|]); (split; [|exact I]);
            unfold pc_lt; cbn [se_w pc_w]; split; auto; right; split; auto.
        + cbn in Wd. lia.
        + specialize (Ws (SUnlocking (s_gid s))). cbn in Ws. lia.
      - destruct (unlock_cs c s g) as [[s1|]|] eqn:Hu; inv H1. pose proof (unlock_cs_ops c s g s1 Hu) as V.
        eexists. split; [ops_eq; rewrite V; reflexivity|]. split; [|exact I].
        unfold pc_lt; cbn [se_w pc_w]; split; auto; right; split; auto. cbn in Wd. lia. }
    right. destruct (aget k subs) as [[| |g]|]; try (apply cs_ok in H); apply P; auto.
  - (* PStreamDrop *)
    apply cs_ok in H. unfold do_sub_drop in H. destruct (aget k subs) as [st|] eqn:Hk; [|discriminate].
    pose proof (asum_adel sub_w k st subs Hnd Hk) as Wd. destruct Hsh as [Hne Hsd].
    pose proof (sub_drops_adel k subs Hsd) as Hsd'.
    destruct st; try discriminate;
      (destruct (cancel_ents c (s_ents s) a k) as [[ents|]|]; try discriminate;
       revert Wd Hsd' H; destruct (adel k subs) as [|x t]; intros Wd Hsd' H; inv H;
       [left; ops_eq|
        right; eexists; split; [ops_eq|]; split;
        [unfold pc_lt; cbn [se_w pc_w]; split; auto; right; split; auto; cbn in Wd; cbn [asum]; cbn [asum] in Wd; lia
        |cbn; split; [discriminate|exact Hsd']]]).
Qed.

(* ------------------------------------------------------------------ *)
(* the guard table only loses the guard whose unlock critical section runs *)

Lemma aget_cons_ne {V} g g0 (k0 : V) gs : g <> g0 -> aget g ((g0, k0) :: gs) = aget g gs.
Proof. intros H. cbn. destruct (Nat.eqb_spec g g0); [contradiction|auto]. Qed.

Lemma lock_keys_aget_guard ks g : forall s, g < s_gid s ->
  aget g (s_guards (fst (lock_keys s ks))) = aget g (s_guards s).
Proof.
  induction ks as [|k rest IH]; intros s Hg; cbn [lock_keys]; [auto|].
  destruct (aget k (s_ents s)) as [e|]; [|apply IH; auto]. cbn [new_guard].
  match goal with |- context [lock_keys ?x rest] => set (s2 := x) end.
  assert (H2 : g < s_gid s2) by (unfold s2; cbn; lia).
  specialize (IH s2 H2). destruct (lock_keys s2 rest) as [s3 l]. cbn [fst] in *. rewrite IH.
  unfold s2. cbn [s_guards with_ents with_gid with_guards]. apply aget_cons_ne. lia.
Qed.

Ltac gk_same :=
  left; cbn [s_guards set_pc fin with_ops with_ents with_guards with_gid with_clock new_guard fst snd];
  rewrite ?begin_unlock_guards; auto.

Lemma step_guard_kept c s l s' o g k :
  Inv s -> step c s l = ROk s' o -> aget g (s_guards s) = Some k ->
  aget g (s_guards s') = Some k \/
  (exists a orc rest af, l = LResume a orc /\ aget a (s_ops s) = Some (PDrops (g :: rest) af)) \/
  (exists a k0 orc subs, l = LSub a k0 orc /\ aget a (s_ops s) = Some (PStream subs) /\
                         aget k0 subs = Some (SUnlocking g)).
Proof.
  intros HI H Hg.
  assert (Hlt : g < s_gid s) by (apply (inv_gid _ HI); eapply aget_Some_keys; eauto).
  assert (NG : forall k0 s1, s1 = fst (new_guard s k0) -> aget g (s_guards s1) = Some k).
  { intros k0 s1 ->. cbn. destruct (Nat.eqb_spec g (s_gid s)); [lia|auto]. }
  destruct l; cbn [step] in H.
  - unfold do_start in H. destruct (amem a (s_ops s)); [discriminate|]. destruct c0.
    + destruct (lim_ok lim); inv H. gk_same.
    + destruct (guard_live s g0); inv H. gk_same.
    + destruct (c_lru c && Z.leb 0 d)%bool; [|discriminate]. destruct (cutoff_of _ _); inv H; gk_same.
    + inv H; gk_same.
    + inv H; gk_same.
    + inv H; gk_same.
  - unfold do_resume in H. destruct (aget a (s_ops s)) as [p|] eqn:Ha; [|discriminate].
    assert (L : forall sh k0 s' o, do_lookup c s a sh k0 = ROk s' o -> aget g (s_guards s') = Some k).
    { intros sh k0 s1 o1 H1. unfold do_lookup in H1. destruct (aget k0 (s_ents s)) as [e0|].
      - inv H1. destruct (sh_is_try sh); cbn; auto.
      - cbn [new_guard] in H1. inv H1. cbn [s_guards fin with_ops with_ents with_gid with_guards].
        rewrite aget_cons_ne; auto. lia. }
    destruct p; try discriminate; try (apply cs_ok in H).
    + left. unfold do_enter in H. destruct lim as [n|]; [|eapply L; eauto].
      destruct (length (s_ents s) - (n - 1)); [eapply L; eauto|].
      destruct (iter_order c s o0); [|discriminate].
      destruct (evict_scan (s_ents s) l (S n0)) as [[[|k1 ks]|]|]; try discriminate; [eapply L; eauto|].
      pose proof (lock_keys_aget_guard (k1 :: ks) g s Hlt) as V.
      destruct (lock_keys s (k1 :: ks)) as [s1 off]. cbn [fst] in V. inv H. cbn. rewrite V. auto.
    + left. unfold do_key_try in H. destruct (aget k0 (s_ents s)) as [e0|]; [|discriminate].
      destruct (e_owner e0); inv H; cbn [s_guards set_pc fin with_ops with_ents with_gid with_guards]; auto.
      rewrite aget_cons_ne; auto. lia.
    + left. unfold do_key_wait in H. destruct (aget k0 (s_ents s)) as [e0|]; [|discriminate].
      destruct (e_owner e0); inv H; cbn [s_guards set_pc fin with_ops with_ents with_gid with_guards]; auto.
      rewrite aget_cons_ne; auto. lia.
    + left. unfold do_queued in H. destruct (aget k0 (s_ents s)) as [e0|]; [|discriminate].
      destruct (own_is_waiter _ a); inv H. cbn [s_guards set_pc fin with_ops with_ents with_gid with_guards].
      rewrite aget_cons_ne; auto. lia.
    + unfold do_cleanup in H. destruct (cleanup_ents (s_ents s) k0) as [[ents|]|]; inv H. gk_same.
    + destruct (cancel_ents c (s_ents s) a k0) as [[ents|]|]; inv H. gk_same.
    + unfold do_drops in H. destruct gs as [|g0 rest]; [discriminate|].
      destruct (unlock_cs c s g0) as [[s1|]|] eqn:Hu; try discriminate.
      pose proof (unlock_cs_guards c s g0 s1 Hu) as V.
      destruct (Nat.eq_dec g g0) as [->|Hne]; [right; left; eauto 6|].
      left. assert (aget g (s_guards s1) = Some k) by (rewrite V, aget_adel_neq; auto).
      destruct rest as [|g' rest']; [destruct af|]; inv H;
        cbn [s_guards set_pc fin with_ops]; rewrite ?begin_unlock_guards; auto.
    + left. unfold do_scan in H. destruct (iter_order c s o0); [|discriminate].
      pose proof (lock_keys_aget_guard (expired_keys (s_ents s) l cutoff) g s Hlt) as V.
      destruct (lock_keys s _) as [s1 ll]. cbn [fst] in V. inv H. cbn. rewrite V. auto.
    + unfold do_stream_enter in H. destruct (iter_order c s o0); inv H. gk_same.
    + inv H. gk_same.
    + destruct (iter_order c s o0); inv H. gk_same.
  - unfold do_sub in H. destruct (aget a (s_ops s)) as [p|] eqn:Ha; [|discriminate].
    destruct p; try discriminate.
    + assert (P : do_sub_poll c s a subs k0 = ROk s' o ->
                  aget g (s_guards s') = Some k \/ aget k0 subs = Some (SUnlocking g)).
      { intros H1. unfold do_sub_poll in H1. destruct (aget k0 subs) as [st|]; [|discriminate].
        destruct (aget k0 (s_ents s)) as [e0|]; [|discriminate].
        destruct st.
        - destruct (e_owner e0).
          + inv H1. left. cbn. auto.
          + left. cbn [new_guard] in H1. destruct (val_of e0); inv H1;
              cbn [s_guards set_pc fin with_ops with_ents with_gid with_guards]; rewrite aget_cons_ne; auto; lia.
        - destruct (own_is_waiter _ a); [|discriminate]. left. cbn [new_guard] in H1.
          destruct (val_of e0); inv H1;
            cbn [s_guards set_pc fin with_ops with_ents with_gid with_guards]; rewrite aget_cons_ne; auto; lia.
        - destruct (unlock_cs c s g0) as [[s1|]|] eqn:Hu; inv H1.
          pose proof (unlock_cs_guards c s g0 s1 Hu) as V.
          destruct (Nat.eq_dec g g0) as [->|Hne]; [right; auto|].
          left. cbn [s_guards set_pc with_ops]. rewrite V, aget_adel_neq; auto. }
      assert (Q : aget g (s_guards s') = Some k \/ aget k0 subs = Some (SUnlocking g)).
      { destruct (aget k0 subs) as [[| |g1]|]; try (apply cs_ok in H); apply P; auto. }
      destruct Q as [Q|Q]; [left; auto|right; right; eauto 8].
    + apply cs_ok in H. unfold do_sub_drop in H. destruct (aget k0 subs) as [st|]; [|discriminate].
      destruct st; try discriminate;
        (destruct (cancel_ents c (s_ents s) a k0) as [[ents|]|]; try discriminate;
         destruct (adel k0 subs); inv H; gk_same).
  - unfold do_pollend in H. destruct (aget a (s_ops s)) as [[]|]; try discriminate. destruct subs; inv H; auto.
  - unfold do_cancel in H. destruct (aget a (s_ops s)) as [[]|]; try discriminate.
    + destruct (sh_is_async sh); inv H; gk_same.
    + destruct (sh_is_async sh); inv H; gk_same.
    + destruct (existsb _ subs); [discriminate|]. destruct subs; inv H; gk_same.
  - unfold do_guard_op in H. destruct (negb (guard_live s g0)); [discriminate|].
    destruct (aget g0 (s_guards s)) as [k0|]; [|discriminate].
    destruct (aget k0 (s_ents s)) as [e0|]; [|discriminate].
    destruct op; try (destruct (e_val e0) as [[? ?]|]); inv H; auto.
  - unfold do_cbreturn in H. destruct (aget a (s_ops s)) as [[]|]; try discriminate.
    destruct hold.
    + destruct offered as [|g0 rest]; [discriminate|]. destruct (all_live s _ && _)%bool; inv H. gk_same.
    + destruct r; inv H; gk_same.
  - destruct (Z.leb 0 d); inv H. auto.
  - unfold do_consume in H. destruct (s_ops s); [|discriminate]. destruct (s_guards s); [discriminate|discriminate].
Qed.
