(* C05 support: sequential (run-to-completion) behaviour of a lock call and of guard operations. *)
From Coq Require Import List Arith ZArith Bool Lia.
From LK Require Import AList AListFacts Model Inv StepInv NoPanic PropLemmas.
Import ListNotations.

(* the plain-map meaning of the guard operations: new value of the key, and what the call returns *)
Definition spec_gop (op : gop) (m : option Z) : option Z * obs :=
  match op with
  | GInsert v => (Some v, OVal m)
  | GRemove => (None, OVal m)
  | GSet v => match m with Some _ => (Some v, OVal (Some v)) | None => (None, OVal None) end
  | GTryInsert v => match m with Some _ => (m, OExists) | None => (Some v, OVal (Some v)) end
  | GGetOrInsert v => match m with Some v0 => (m, OVal (Some v0)) | None => (Some v, OVal (Some v)) end
  | GRead => (m, OVal m)
  | GClosurePanic => match m with Some v0 => (m, OVal (Some v0)) | None => (None, OPanicked) end
  end.

Theorem guard_op_refines c s g op s' o k :
  step c s (LGuardOp g op) = ROk s' o -> aget g (s_guards s) = Some k ->
  (vof s' k, o) = spec_gop op (vof s k) /\
  s_guards s' = s_guards s /\ s_ops s' = s_ops s /\ akeys (s_ents s') = akeys (s_ents s).
Proof.
  cbn. unfold do_guard_op. intros H Hg. destruct (negb (guard_live s g)); [discriminate|].
  rewrite Hg in H. destruct (aget k (s_ents s)) as [e|] eqn:He; [|discriminate].
  unfold vof, vof_e. rewrite He. unfold val_of.
  destruct op; destruct (e_val e) as [[v0 st]|] eqn:Ev; inv H; cbn;
    rewrite ?aget_aset_eq, ?He; cbn; unfold val_of; rewrite ?Ev; repeat split; auto;
    try (eapply akeys_aset_present; eauto).
Qed.

(* a guard operation is enabled on every live guard *)
Theorem guard_op_enabled c s g op k :
  Inv s -> aget g (s_guards s) = Some k -> guard_busy s g = false ->
  exists s' o, step c s (LGuardOp g op) = ROk s' o.
Proof.
  intros HI Hg Hb. cbn. unfold do_guard_op, guard_live, amem. rewrite Hg, Hb. cbn.
  destruct (Inv_guard_present s g k HI Hg) as (e & He & _). rewrite He.
  destruct op; destruct (e_val e) as [[v0 st]|]; eauto.
Qed.

(* run a lock call without limit to completion, as a single-threaded caller would *)
Definition then_ (r : result) (f : state -> result) : result :=
  match r with ROk s ONothing => f s | _ => r end.

Definition seq_lock (c : cfg) (s : state) (a : aid) (sh : shape) (k : key) : result :=
  then_ (step c s (LStart a (CLock sh k None))) (fun s1 =>
  then_ (step c s1 (LResume a [])) (fun s2 =>
  then_ (step c s2 (LResume a [])) (fun s3 => step c s3 (LResume a [])))).

Definition key_free (s : state) (k : key) : Prop :=
  match aget k (s_ents s) with Some e => e_owner e = None | None => True end.

(* the state after a successful sequential lock of a free key: independent of the call's shape *)
Definition locked_state (c : cfg) (s : state) (k : key) : state :=
  let g := s_gid s in
  match aget k (s_ents s) with
  | None => mkS (aset k (mkE None (Some (OwnG g)) [] 1) (s_ents s)) ((g, k) :: s_guards s) (s_ops s) (s_clock s) (S g)
  | Some e =>
      mkS (aset k (set_owner (set_repl e (S (e_repl e))) (Some (OwnG g))) (promote_if_lru c k (s_ents s)))
          ((g, k) :: s_guards s) (s_ops s) (s_clock s) (S g)
  end.

Lemma start_lock c s a sh k : aget a (s_ops s) = None ->
  step c s (LStart a (CLock sh k None)) = ROk (set_pc s a (PEnter sh k None)) ONothing.
Proof. intros Ha. cbn. unfold do_start, amem. rewrite Ha. reflexivity. Qed.

Lemma resume_cs_lookup c s a sh k :
  Inv s -> aget a (s_ops s) = Some (PEnter sh k None) ->
  step c s (LResume a []) = do_lookup c s a sh k.
Proof.
  intros HI Ha. cbn. unfold do_resume. rewrite Ha. cbn [do_enter].
  destruct (do_lookup c s a sh k) as [s1 o1| |] eqn:E.
  - apply cs_intro; auto. eapply do_lookup_inv; eauto.
  - unfold cs. rewrite (Inv_inv2_ok s HI). reflexivity.
  - exfalso. unfold do_lookup in E. destruct (aget k (s_ents s)); [discriminate|]. destruct (new_guard s k). discriminate.
Qed.

Theorem seq_lock_free c s a sh k :
  Inv s -> aget a (s_ops s) = None -> key_free s k ->
  seq_lock c s a sh k = ROk (locked_state c s k) (OGuard (s_gid s) k (vof s k)).
Proof.
  intros HI Ha Hf. unfold seq_lock. rewrite (start_lock c s a sh k Ha). cbn [then_].
  set (s1 := set_pc s a (PEnter sh k None)).
  assert (HI1 : Inv s1) by (apply start_inv; auto; intros; cbn; auto).
  assert (Ha1 : aget a (s_ops s1) = Some (PEnter sh k None)) by (cbn; apply aget_aset_eq).
  rewrite (resume_cs_lookup c s1 a sh k HI1 Ha1).
  unfold do_lookup, locked_state, key_free, vof, vof_e in *. cbn [s_ents s1 set_pc with_ops].
  destruct (aget k (s_ents s)) as [e|] eqn:He.
  - (* present and unlocked *)
    cbn [then_].
    set (ents2 := aset k (set_repl e (S (e_repl e))) (promote_if_lru c k (s_ents s))).
    set (p2 := if sh_is_try sh then PKeyTry sh k else PKeyWait sh k).
    set (s2 := set_pc (with_ents s1 ents2) a p2).
    assert (He2 : aget k (s_ents s2) = Some (set_repl e (S (e_repl e)))) by (cbn; apply aget_aset_eq).
    assert (Ha2 : aget a (s_ops s2) = Some p2) by (cbn; apply aget_aset_eq).
    assert (E3 : step c s2 (LResume a []) =
                 ROk (mkS (aset k (set_owner (set_repl e (S (e_repl e))) (Some (OwnG (s_gid s)))) ents2)
                          ((s_gid s, k) :: s_guards s) (s_ops s) (s_clock s) (S (s_gid s)))
                     (OGuard (s_gid s) k (val_of e))).
    { cbn [step]. unfold do_resume. rewrite Ha2. unfold p2.
      destruct (sh_is_try sh); [unfold do_key_try|unfold do_key_wait]; rewrite He2; cbn [e_owner set_repl];
        rewrite Hf; cbn [new_guard]; unfold fin, with_ents, with_ops, with_guards, with_gid, set_pc; cbn;
        rewrite aset_aset, adel_aset_absent; auto. }
    rewrite E3. cbn [then_]. unfold ents2. rewrite aset_aset. reflexivity.
  - (* absent: the look-up inserts a pre-locked placeholder *)
    cbn [new_guard then_]. unfold fin, with_ents, with_ops, with_guards, with_gid, set_pc. cbn.
    rewrite adel_aset_absent; auto.
Qed.

(* the eight acquisition variants are interchangeable on a free key (borrowed/owned is not a model notion) *)
Theorem seq_lock_shape_independent c s a sh1 sh2 k :
  Inv s -> aget a (s_ops s) = None -> key_free s k ->
  seq_lock c s a sh1 k = seq_lock c s a sh2 k.
Proof. intros HI Ha Hf. rewrite !seq_lock_free; auto. Qed.

(* a try on a key that is locked (or handed to a pending acquisition) returns None and changes nothing
   a plain map + locked set can see *)
Theorem seq_try_fails_when_locked c s a sh k e :
  Inv s -> aget a (s_ops s) = None -> sh_is_try sh = true ->
  aget k (s_ents s) = Some e -> e_owner e <> None ->
  exists s', seq_lock c s a sh k = ROk s' OTryFail /\
    s_guards s' = s_guards s /\ s_ops s' = s_ops s /\ (forall k', vof s' k' = vof s k') /\
    (forall k', In k' (akeys (s_ents s')) <-> In k' (akeys (s_ents s))) /\
    (forall k' e', aget k' (s_ents s') = Some e' -> exists e0, aget k' (s_ents s) = Some e0 /\ e_owner e' = e_owner e0) /\
    s_gid s' = s_gid s.
Proof.
  intros HI Ha Hsh He Ho. unfold seq_lock. rewrite (start_lock c s a sh k Ha). cbn [then_].
  set (s1 := set_pc s a (PEnter sh k None)).
  assert (HI1 : Inv s1) by (apply start_inv; auto; intros; cbn; auto).
  assert (Ha1 : aget a (s_ops s1) = Some (PEnter sh k None)) by (cbn; apply aget_aset_eq).
  rewrite (resume_cs_lookup c s1 a sh k HI1 Ha1).
  unfold do_lookup. cbn [s_ents s1 set_pc with_ops]. rewrite He, Hsh. cbn [then_].
  set (e2 := set_repl e (S (e_repl e))).
  set (ents2 := aset k e2 (promote_if_lru c k (s_ents s))).
  set (s2 := set_pc (with_ents s1 ents2) a (PKeyTry sh k)).
  assert (E2 : do_lookup c s1 a sh k = ROk s2 ONothing).
  { unfold do_lookup. cbn [s_ents s1 set_pc with_ops]. rewrite He, Hsh. reflexivity. }
  pose proof (do_lookup_inv c s1 a sh k None s2 ONothing HI1 Ha1 E2) as HI2.
  assert (He2 : aget k (s_ents s2) = Some e2) by (cbn; apply aget_aset_eq).
  assert (Ha2 : aget a (s_ops s2) = Some (PKeyTry sh k)) by (cbn; apply aget_aset_eq).
  assert (E3 : step c s2 (LResume a []) = ROk (set_pc s2 a (PCleanup sh k)) ONothing).
  { cbn [step]. unfold do_resume. rewrite Ha2. unfold do_key_try. rewrite He2. cbn [e_owner e2 set_repl].
    destruct (e_owner e); [reflexivity|congruence]. }
  rewrite E3. cbn [then_].
  set (s3 := set_pc s2 a (PCleanup sh k)).
  pose proof (step_inv c s2 _ _ _ HI2 E3) as HI3.
  assert (Ha3 : aget a (s_ops s3) = Some (PCleanup sh k)) by (cbn; apply aget_aset_eq).
  destruct (resume_enabled c s3 a (PCleanup sh k) [] HI3 Ha3 eq_refl) as (s4 & ob & E4); [discriminate|].
  rewrite E4. pose proof (cleanup_reports_fail c s3 a sh k [] s4 ob Ha3 E4) as ->.
  exists s4. split; auto.
  (* what the cleanup did *)
  pose proof E4 as E4'. cbn in E4'. unfold do_resume in E4'. rewrite Ha3 in E4'. apply cs_ok in E4'.
  unfold do_cleanup in E4'. cbn [s_ents s3 s2 set_pc with_ents with_ops] in E4'.
  assert (R2 : 2 <= e_repl e2).
  { assert (0 < e_repl e) by (apply (owner_handles s k e HI He Ho)). unfold e2. cbn [e_repl set_repl]. lia. }
  assert (Hc : cleanup_ents ents2 k = inl (Some (aset k (set_repl e2 (e_repl e2 - 1)) ents2))).
  { unfold cleanup_ents. unfold ents2 at 1. rewrite aget_aset_eq.
    destruct (Nat.eqb_spec (e_repl e2) 1); [lia|reflexivity]. }
  rewrite Hc in E4'. inv E4'.
  unfold fin, with_ents, with_ops, set_pc. cbn [s_ents s_guards s_ops s1 set_pc with_ops].
  assert (Hops : adel a (aset a (PCleanup sh k) (aset a (PKeyTry sh k) (aset a (PEnter sh k None) (s_ops s)))) = s_ops s).
  { rewrite !aset_aset. apply adel_aset_absent; auto. }
  assert (G : forall k', aget k' (aset k (set_repl e2 (e_repl e2 - 1)) ents2) =
                         if Nat.eqb k' k then Some e else aget k' (s_ents s)).
  { intros k'. unfold ents2. rewrite aset_aset, aget_aset, promote_if_lru_get.
    destruct (Nat.eqb k' k); auto. f_equal. unfold e2. destruct e as [v0 ow q r]; unfold set_repl; cbn.
    replace (r - 0) with r by lia. reflexivity. }
  split; [reflexivity|]. split; [exact Hops|]. split; [|split; [|split; [|reflexivity]]].
  - intros k'. unfold vof, vof_e. cbn. rewrite G. destruct (Nat.eqb_spec k' k); [subst; rewrite He|]; auto.
  - intros k'. cbn. rewrite !keys_aget_iff, G. destruct (Nat.eqb_spec k' k); [subst; rewrite He|]; split; eauto.
  - intros k' e'. cbn. rewrite G. destruct (Nat.eqb_spec k' k); [subst|]; intros H; inv H; eauto.
Qed.

(* ------------------------------------------------------------------ *)
(* C06: an async_lock on a held key that is cancelled while pending leaves exactly the state it found,
   except that the key was moved to the most-recently-used position by the call's own look-up *)

Definition seq_async_cancel (c : cfg) (s : state) (a : aid) (k : key) : result :=
  then_ (step c s (LStart a (CLock ShAsync k None))) (fun s1 =>
  then_ (step c s1 (LResume a [])) (fun s2 =>
  then_ (step c s2 (LResume a [])) (fun s3 =>
  then_ (step c s3 (LCancel a)) (fun s4 => step c s4 (LResume a []))))).

Lemma remove_nat_snoc_fresh a q : ~ In a q -> remove_nat a (q ++ [a]) = q.
Proof.
  intros H. rewrite remove_nat_app. cbn. rewrite Nat.eqb_refl, app_nil_r. apply remove_nat_notin; auto.
Qed.

Theorem async_cancel_roundtrip c s a k e :
  Inv s -> aget a (s_ops s) = None -> aget k (s_ents s) = Some e -> e_owner e <> None ->
  seq_async_cancel c s a k =
  ROk (mkS (aset k e (promote_if_lru c k (s_ents s))) (s_guards s) (s_ops s) (s_clock s) (s_gid s)) OCancelled.
Proof.
  intros HI Ha He Ho. unfold seq_async_cancel. rewrite (start_lock c s a ShAsync k Ha). cbn [then_].
  set (s1 := set_pc s a (PEnter ShAsync k None)).
  assert (HI1 : Inv s1) by (apply start_inv; auto; intros; cbn; auto).
  assert (Ha1 : aget a (s_ops s1) = Some (PEnter ShAsync k None)) by (cbn; apply aget_aset_eq).
  rewrite (resume_cs_lookup c s1 a ShAsync k HI1 Ha1).
  unfold do_lookup. cbn [s_ents s1 set_pc with_ops sh_is_try]. rewrite He. cbn [then_].
  set (e2 := set_repl e (S (e_repl e))).
  set (ents2 := aset k e2 (promote_if_lru c k (s_ents s))).
  set (s2 := set_pc (with_ents s1 ents2) a (PKeyWait ShAsync k)).
  assert (E2 : do_lookup c s1 a ShAsync k = ROk s2 ONothing).
  { unfold do_lookup. cbn [s_ents s1 set_pc with_ops sh_is_try]. rewrite He. reflexivity. }
  pose proof (do_lookup_inv c s1 a ShAsync k None s2 ONothing HI1 Ha1 E2) as HI2.
  assert (He2 : aget k (s_ents s2) = Some e2) by (cbn; apply aget_aset_eq).
  assert (Ha2 : aget a (s_ops s2) = Some (PKeyWait ShAsync k)) by (cbn; apply aget_aset_eq).
  (* first poll: the mutex is held, enqueue *)
  set (e3 := set_queue e2 (e_queue e2 ++ [a])).
  set (s3 := set_pc (with_ents s2 (aset k e3 (s_ents s2))) a (PQueued ShAsync k)).
  assert (E3 : step c s2 (LResume a []) = ROk s3 ONothing).
  { cbn [step]. unfold do_resume. rewrite Ha2. unfold do_key_wait. rewrite He2. cbn [e_owner e2 set_repl].
    destruct (e_owner e); [reflexivity|congruence]. }
  rewrite E3. cbn [then_].
  pose proof (step_inv c s2 _ _ _ HI2 E3) as HI3.
  assert (Ha3 : aget a (s_ops s3) = Some (PQueued ShAsync k)) by (cbn; apply aget_aset_eq).
  assert (E4 : step c s3 (LCancel a) = ROk (set_pc s3 a (PCancel k)) ONothing).
  { cbn [step]. unfold do_cancel. rewrite Ha3. reflexivity. }
  rewrite E4. cbn [then_].
  set (s4 := set_pc s3 a (PCancel k)).
  pose proof (step_inv c s3 _ _ _ HI3 E4) as HI4.
  assert (Ha4 : aget a (s_ops s4) = Some (PCancel k)) by (cbn; apply aget_aset_eq).
  (* the waiter was not queued before: it did not exist *)
  assert (Hnq : ~ In a (e_queue e)).
  { intros Hin. assert (W : waits_on s a k) by (apply (ki_w _ _ (inv_k _ HI k)); eauto).
    destruct W as (p & Hp & _). congruence. }
  assert (Hnw : e_owner e <> Some (OwnW a)).
  { intros Hw. assert (W : waits_on s a k) by (apply (ki_w _ _ (inv_k _ HI k)); eauto).
    destruct W as (p & Hp & _). congruence. }
  assert (R1 : 1 <= e_repl e) by (apply (owner_handles s k e HI He Ho)).
  (* the cancel critical section *)
  assert (Hc : cancel_ents c (s_ents s4) a k =
               inl (Some (aset k e (promote_if_lru c k (s_ents s))))).
  { unfold cancel_ents. cbn [s_ents s4 s3 s2 set_pc with_ents with_ops]. unfold ents2. rewrite !aset_aset, aget_aset_eq.
    assert (M : mx_cancel e3 a = set_queue e3 (e_queue e)).
    { unfold mx_cancel. cbn [e_owner e3 e2 set_queue set_repl e_queue].
      destruct (e_owner e) as [[g|a']|] eqn:Eo; try congruence.
      - rewrite remove_nat_snoc_fresh; auto.
      - destruct (Nat.eqb_spec a a'); [subst; congruence|]. rewrite remove_nat_snoc_fresh; auto. }
    rewrite M. cbn [e_repl set_repl set_queue e3 e2 e_owner e_val].
    replace (S (e_repl e) - 1) with (e_repl e) by lia.
    destruct (Nat.eqb_spec (e_repl e) 0); [lia|].
    rewrite aset_aset. do 3 f_equal. destruct e; reflexivity. }
  cbn [step]. unfold do_resume. rewrite Ha4, Hc.
  match goal with |- cs ?st (ROk ?st' ?ob) = _ => assert (HI5 : Inv st') end.
  { eapply (do_pcancel_inv c s4 a k); eauto. }
  rewrite cs_intro; auto. f_equal.
  unfold fin, with_ents, with_ops, set_pc. cbn [s_ents s_guards s_ops s_clock s_gid s4 s3 s2 s1 set_pc with_ents with_ops].
  rewrite !aset_aset, adel_aset_absent; auto.
Qed.

(* ------------------------------------------------------------------ *)
(* dropping a guard, run to completion *)

Definition seq_drop (c : cfg) (s : state) (a : aid) (g : gid) : result :=
  then_ (step c s (LStart a (CDrop g))) (fun s1 => step c s1 (LResume a [])).

(* the state after dropping the only handle on key k (no waiter, no other call in flight on k) *)
Definition dropped_state (c : cfg) (s : state) (g : gid) (k : key) (e : entry) : state :=
  match e_val e with
  | None => mkS (adel k (s_ents s)) (adel g (s_guards s)) (s_ops s) (s_clock s) (s_gid s)
  | Some (v, st) =>
      mkS (aset k (mkE (Some (v, if c_lru c then s_clock s else st)) None [] 0) (s_ents s))
          (adel g (s_guards s)) (s_ops s) (s_clock s) (s_gid s)
  end.

Theorem seq_drop_sole c s a g k e :
  Inv s -> aget a (s_ops s) = None -> aget g (s_guards s) = Some k -> guard_busy s g = false ->
  aget k (s_ents s) = Some e -> e_queue e = [] -> e_repl e = 1 ->
  seq_drop c s a g = ROk (dropped_state c s g k e) OUnit.
Proof.
  intros HI Ha Hg Hb He Hq Hr. unfold seq_drop.
  assert (E1 : step c s (LStart a (CDrop g)) = ROk (set_pc (begin_unlock c s g) a (PDrops [g] ADoneUnit)) ONothing).
  { cbn. unfold do_start, amem, guard_live, amem. rewrite Ha, Hg, Hb. reflexivity. }
  rewrite E1. cbn [then_].
  set (s1 := set_pc (begin_unlock c s g) a (PDrops [g] ADoneUnit)).
  pose proof (step_inv c s _ _ _ HI E1) as HI1.
  assert (Ha1 : aget a (s_ops s1) = Some (PDrops [g] ADoneUnit)) by (cbn; apply aget_aset_eq).
  assert (Ho : e_owner e = Some (OwnG g)).
  { destruct (Inv_guard_present s g k HI Hg) as (e0 & He0 & Ho0). congruence. }
  (* the state after on_unlock *)
  assert (B : begin_unlock c s g =
              match e_val e with
              | Some (v, st) => if c_lru c then with_ents s (aset k (set_val e (Some (v, s_clock s))) (s_ents s)) else s
              | None => s
              end).
  { unfold begin_unlock. rewrite Hg, He. destruct (c_lru c); destruct (e_val e) as [[v st]|]; reflexivity. }
  cbn [step]. unfold do_resume. rewrite Ha1. unfold do_drops.
  assert (U : unlock_cs c s1 g = inl (Some (with_ops (dropped_state c s g k e) (s_ops s1)))).
  { unfold unlock_cs, s1. cbn [s_guards s_ents set_pc with_ops]. rewrite begin_unlock_guards, Hg, B.
    unfold dropped_state, mx_release, promote_if_lru.
    destruct (e_val e) as [[v st]|] eqn:Ev.
    - destruct (c_lru c) eqn:El.
      + cbn [s_ents with_ents]. rewrite aget_aset_eq. cbn [e_val set_val e_queue e_repl set_repl set_owner].
        rewrite Hq, Hr. cbn. rewrite aset_aset. unfold with_guards, with_ents, with_ops. cbn.
        unfold set_repl, set_owner, set_val; cbn; rewrite ?Hq; reflexivity.
      + rewrite He. rewrite Ev, Hq, Hr. cbn. unfold with_guards, with_ents, with_ops. cbn.
        unfold set_repl, set_owner, set_val; cbn; rewrite ?Hq, ?Ev; reflexivity.
    - rewrite He, Ev, Hq. cbn [e_repl set_repl set_owner e_queue]. rewrite Hr. cbn [Nat.sub Nat.eqb].
      unfold with_guards, with_ents, with_ops. cbn [s_ents s_guards s_ops s_clock s_gid].
      assert (D : forall X, adel k (if c_lru c then apromote k (aset k X (s_ents s)) else aset k X (s_ents s)) = adel k (s_ents s)).
      { intros X. destruct (c_lru c); [rewrite adel_apromote_same|]; apply adel_aset_same. }
      rewrite D. reflexivity. }
  rewrite U.
  match goal with |- cs ?st (ROk ?st' ?ob) = _ => assert (HI5 : Inv st') end.
  { eapply (do_drops_inv c s1 a [g] ADoneUnit); eauto. unfold do_drops. rewrite U. reflexivity. }
  rewrite cs_intro; auto. f_equal.
  unfold fin, with_ops, dropped_state. destruct (e_val e) as [[v st]|]; cbn [s_ents s_guards s_ops s_clock s_gid s1 set_pc with_ops];
    rewrite begin_unlock_ops, adel_aset_absent; auto.
Qed.
