(* Draining always terminates.  Drain.v shows that from every reachable state SOME run of the draining client
   (calls in flight take their steps, callbacks return, guards and exhausted streams are dropped; no lock call
   is started or cancelled) reaches the state of rest.  Here: EVERY such run is finite -- whatever the
   scheduler does, in whatever order the client drops its guards -- and the only state in which the draining
   client has no move left is the state of rest.  So once clients stop asking for new locks and keep releasing
   what they hold, every call in flight completes: no deadlock and no livelock inside the library.

   Proof: a lexicographic measure (number of calls that can still create guards in bulk; remaining work of the
   calls in flight + 3 for every guard nobody is dropping yet) that EVERY draining step decreases. *)
From Coq Require Import List Arith ZArith Bool Lia Wellfounded.
From LK Require Import AList AListFacts Model Observe Inv StepInv NoPanic PropLemmas Seq DropInv Stream Drain.
Import ListNotations.

(* ------------------------------------------------------------------ *)
(* what a step does to the guard table, and the transition table of a call's own steps *)

Inductive geff := GSame | GNew (k : key) | GNewBusy (k : key) | GDel (g : gid) | GBulk.

Definition geff_ok (s s' : state) (ge : geff) : Prop :=
  match ge with
  | GSame => s_guards s' = s_guards s
  | GNew k | GNewBusy k => s_guards s' = (s_gid s, k) :: s_guards s
  | GDel g => s_guards s' = adel g (s_guards s)
  | GBulk => True
  end.

Definition upd_l (ops : list (aid * pc)) (a : aid) (np : option pc) : list (aid * pc) :=
  match np with Some p => aset a p ops | None => adel a ops end.

Inductive rtrans : pc -> option pc -> geff -> Prop :=
| rt_enter_try sh k lim : rtrans (PEnter sh k lim) (Some (PKeyTry sh k)) GSame
| rt_enter_wait sh k lim : rtrans (PEnter sh k lim) (Some (PKeyWait sh k)) GSame
| rt_enter_new sh k lim : rtrans (PEnter sh k lim) None (GNew k)
| rt_enter_cb sh k n off : rtrans (PEnter sh k (Some n)) (Some (PInCb sh k n off)) GBulk
| rt_try_ok sh k : rtrans (PKeyTry sh k) None (GNew k)
| rt_try_fail sh k : rtrans (PKeyTry sh k) (Some (PCleanup sh k)) GSame
| rt_wait_ok sh k : rtrans (PKeyWait sh k) None (GNew k)
| rt_wait_q sh k : rtrans (PKeyWait sh k) (Some (PQueued sh k)) GSame
| rt_queued sh k : rtrans (PQueued sh k) None (GNew k)
| rt_cleanup sh k : rtrans (PCleanup sh k) None GSame
| rt_cancel k : rtrans (PCancel k) None GSame
| rt_drops_more g g' r af : rtrans (PDrops (g :: g' :: r) af) (Some (PDrops (g' :: r) af)) (GDel g)
| rt_drops_reenter g sh k lim : rtrans (PDrops [g] (AReenter sh k lim)) (Some (PEnter sh k (Some lim))) (GDel g)
| rt_drops_done g af : (forall sh k lim, af <> AReenter sh k lim) -> rtrans (PDrops [g] af) None (GDel g)
| rt_scan ct : rtrans (PScan ct) None GBulk
| rt_stream_enter subs : sub_drops subs = [] -> rtrans PStreamEnter (Some (PStream subs)) GSame
| rt_count : rtrans PCount None GSame
| rt_keys : rtrans PKeys None GSame.

Lemma sub_drops_init' order : sub_drops (map (fun k : key => (k, SInit)) order) = [].
Proof. induction order; cbn; auto. Qed.

Ltac ops_eq' :=
  cbn [geff_ok s_ops s_guards s_gid set_pc fin with_ops with_ents with_guards with_gid with_clock new_guard fst snd upd_l];
  rewrite ?begin_unlock_ops, ?begin_unlock_guards;
  cbn [geff_ok s_ops s_guards s_gid set_pc fin with_ops with_ents with_guards with_gid with_clock new_guard fst snd upd_l];
  auto.

Lemma resume_trans c s a p o s' ob :
  aget a (s_ops s) = Some p -> step c s (LResume a o) = ROk s' ob ->
  exists np ge, s_ops s' = upd_l (s_ops s) a np /\ rtrans p np ge /\ geff_ok s s' ge.
Proof.
  intros Ha H. cbn [step] in H. unfold do_resume in H. rewrite Ha in H.
  assert (L : forall sh k0 lim s' o, p = PEnter sh k0 lim -> do_lookup c s a sh k0 = ROk s' o ->
            exists np ge, s_ops s' = upd_l (s_ops s) a np /\ rtrans p np ge /\ geff_ok s s' ge).
  { intros sh k0 lim s1 o1 -> H1. unfold do_lookup in H1. destruct (aget k0 (s_ents s)) as [e0|].
    - inv H1. destruct (sh_is_try sh).
      + exists (Some (PKeyTry sh k0)), GSame. split; [ops_eq'|]. split; [constructor|ops_eq'].
      + exists (Some (PKeyWait sh k0)), GSame. split; [ops_eq'|]. split; [constructor|ops_eq'].
    - cbn [new_guard] in H1. inv H1. exists None, (GNew k0). split; [ops_eq'|]. split; [constructor|ops_eq']. }
  destruct p; try discriminate; try (apply cs_ok in H).
  - unfold do_enter in H. destruct lim as [n|]; [|eapply L; eauto].
    destruct (length (s_ents s) - (n - 1)); [eapply L; eauto|].
    destruct (iter_order c s o); [|discriminate].
    destruct (evict_scan (s_ents s) l (S n0)) as [[[|k1 ks]|]|]; try discriminate; [eapply L; eauto|].
    destruct (lock_keys_ops_guards (k1 :: ks) s) as [V _].
    destruct (lock_keys s (k1 :: ks)) as [s1 off]. cbn [fst] in V. inv H.
    eexists (Some _), GBulk. split; [ops_eq'; rewrite V; reflexivity|]. split; [constructor|exact I].
  - unfold do_key_try in H. destruct (aget k (s_ents s)) as [e0|]; [|discriminate].
    destruct (e_owner e0); inv H.
    + exists (Some (PCleanup sh k)), GSame. split; [ops_eq'|]. split; [constructor|ops_eq'].
    + exists None, (GNew k). split; [ops_eq'|]. split; [constructor|ops_eq'].
  - unfold do_key_wait in H. destruct (aget k (s_ents s)) as [e0|]; [|discriminate].
    destruct (e_owner e0); inv H.
    + exists (Some (PQueued sh k)), GSame. split; [ops_eq'|]. split; [constructor|ops_eq'].
    + exists None, (GNew k). split; [ops_eq'|]. split; [constructor|ops_eq'].
  - unfold do_queued in H. destruct (aget k (s_ents s)) as [e0|]; [|discriminate].
    destruct (own_is_waiter _ a); inv H. exists None, (GNew k). split; [ops_eq'|]. split; [constructor|ops_eq'].
  - unfold do_cleanup in H. destruct (cleanup_ents (s_ents s) k) as [[ents|]|]; inv H.
    exists None, GSame. split; [ops_eq'|]. split; [constructor|ops_eq'].
  - destruct (cancel_ents c (s_ents s) a k) as [[ents|]|]; inv H.
    exists None, GSame. split; [ops_eq'|]. split; [constructor|ops_eq'].
  - unfold do_drops in H. destruct gs as [|g rest]; [discriminate|].
    destruct (unlock_cs c s g) as [[s1|]|] eqn:Hu; try discriminate.
    pose proof (unlock_cs_ops c s g s1 Hu) as V. pose proof (unlock_cs_guards c s g s1 Hu) as VG.
    destruct rest as [|g' rest']; [destruct af|]; inv H.
    + exists None, (GDel g). split; [ops_eq'; rewrite V; auto|]. split; [constructor; intros; discriminate|ops_eq'].
    + exists None, (GDel g). split; [ops_eq'; rewrite V; auto|]. split; [constructor; intros; discriminate|ops_eq'].
    + exists None, (GDel g). split; [ops_eq'; rewrite V; auto|]. split; [constructor; intros; discriminate|ops_eq'].
    + eexists (Some _), (GDel g). split; [ops_eq'; rewrite V; reflexivity|]. split; [constructor|ops_eq'].
    + eexists (Some _), (GDel g). split; [ops_eq'; rewrite V; reflexivity|]. split; [constructor|ops_eq'].
  - unfold do_scan in H. destruct (iter_order c s o); [|discriminate].
    destruct (lock_keys_ops_guards (expired_keys (s_ents s) l cutoff) s) as [V _].
    destruct (lock_keys s _) as [s1 ll]. cbn [fst] in V. inv H.
    exists None, GBulk. split; [ops_eq'; rewrite V; auto|]. split; [constructor|exact I].
  - unfold do_stream_enter in H. destruct (iter_order c s o); inv H.
    eexists (Some _), GSame. split; [ops_eq'|]. split; [constructor; apply sub_drops_init'|ops_eq'].
  - inv H. exists None, GSame. split; [ops_eq'|]. split; [constructor|ops_eq'].
  - destruct (iter_order c s o); inv H. exists None, GSame. split; [ops_eq'|]. split; [constructor|ops_eq'].
Qed.

(* the steps of a stream's per-entry futures *)
Inductive strans (g0 : gid) (k : key) : pc -> option pc -> geff -> Prop :=
| st_enqueue subs : aget k subs = Some SInit ->
    strans g0 k (PStream subs) (Some (PStream (aset k SQueued subs))) GSame
| st_item subs : (aget k subs = Some SInit \/ aget k subs = Some SQueued) ->
    strans g0 k (PStream subs) (Some (PStream (adel k subs))) (GNew k)
| st_valueless subs : (aget k subs = Some SInit \/ aget k subs = Some SQueued) ->
    strans g0 k (PStream subs) (Some (PStream (aset k (SUnlocking g0) subs))) (GNewBusy k)
| st_unlock subs g : aget k subs = Some (SUnlocking g) ->
    strans g0 k (PStream subs) (Some (PStream (adel k subs))) (GDel g)
| st_drop_last subs : (aget k subs = Some SInit \/ aget k subs = Some SQueued) -> adel k subs = [] ->
    strans g0 k (PStreamDrop subs) None GSame
| st_drop_more subs : (aget k subs = Some SInit \/ aget k subs = Some SQueued) -> adel k subs <> [] ->
    strans g0 k (PStreamDrop subs) (Some (PStreamDrop (adel k subs))) GSame.

Lemma sub_trans c s a p k o s' ob :
  aget a (s_ops s) = Some p -> step c s (LSub a k o) = ROk s' ob ->
  exists np ge, s_ops s' = upd_l (s_ops s) a np /\ strans (s_gid s) k p np ge /\ geff_ok s s' ge.
Proof.
  intros Ha H. cbn [step] in H. unfold do_sub in H. rewrite Ha in H.
  destruct p; try discriminate.
  - assert (P : do_sub_poll c s a subs k = ROk s' ob ->
                exists np ge, s_ops s' = upd_l (s_ops s) a np /\ strans (s_gid s) k (PStream subs) np ge /\ geff_ok s s' ge).
    { intros H1. unfold do_sub_poll in H1. destruct (aget k subs) as [st|] eqn:Hk; [|discriminate].
      destruct (aget k (s_ents s)) as [e0|]; [|discriminate].
      destruct st.
      - destruct (e_owner e0).
        + inv H1. eexists (Some _), GSame. split; [ops_eq'|]. split; [constructor; auto|ops_eq'].
        + cbn [new_guard] in H1. destruct (val_of e0); inv H1.
          * eexists (Some _), (GNew k). split; [ops_eq'|]. split; [apply st_item; auto|ops_eq'].
          * eexists (Some _), (GNewBusy k). split; [ops_eq'|]. split; [apply st_valueless; auto|ops_eq'].
      - destruct (own_is_waiter _ a); [|discriminate]. cbn [new_guard] in H1.
        destruct (val_of e0); inv H1.
        + eexists (Some _), (GNew k). split; [ops_eq'|]. split; [apply st_item; auto|ops_eq'].
        + eexists (Some _), (GNewBusy k). split; [ops_eq'|]. split; [apply st_valueless; auto|ops_eq'].
      - destruct (unlock_cs c s g) as [[s1|]|] eqn:Hu; inv H1.
        pose proof (unlock_cs_ops c s g s1 Hu) as V. pose proof (unlock_cs_guards c s g s1 Hu) as VG.
        eexists (Some _), (GDel g). split; [ops_eq'; rewrite V; reflexivity|]. split; [eapply st_unlock; eauto|ops_eq']. }
    destruct (aget k subs) as [[| |g]|]; try (apply cs_ok in H); apply P; auto.
  - apply cs_ok in H. unfold do_sub_drop in H. destruct (aget k subs) as [st|] eqn:Hk; [|discriminate].
    assert (W : st = SInit \/ st = SQueued -> aget k subs = Some SInit \/ aget k subs = Some SQueued)
      by (intros [-> | ->]; auto).
    destruct st; try discriminate;
      (destruct (cancel_ents c (s_ents s) a k) as [[ents|]|]; try discriminate;
       destruct (adel k subs) as [|x t] eqn:Ead; inv H;
       [exists None, GSame; split; [ops_eq'|]; split; [apply st_drop_last; auto|ops_eq']
       |exists (Some (PStreamDrop (adel k subs))), GSame; split; [rewrite Ead; ops_eq'|]; split;
        [apply st_drop_more; [auto|rewrite Ead; discriminate]|ops_eq']]).
Qed.

(* ------------------------------------------------------------------ *)
(* the measure *)

Definition sub_w2 (st : sub) : nat := match st with SInit => 5 | SQueued => 4 | SUnlocking _ => 1 end.
Definition after_w2 (af : after) : nat := match af with AReenter _ _ _ => 8 | _ => 1 end.

Definition pc_w2 (p : pc) : nat :=
  match p with
  | PEnter _ _ _ => 7
  | PKeyTry _ _ | PKeyWait _ _ => 6
  | PQueued _ _ => 4
  | PInCb _ _ _ _ | PCleanup _ _ | PCancel _ | PScan _ | PCount | PKeys => 1
  | PDrops gs af => length gs + after_w2 af
  | PStreamEnter => 0
  | PStream subs | PStreamDrop subs => 1 + asum sub_w2 subs
  end.

(* calls that can still create any number of guards in one step *)
Definition bulk_w (p : pc) : nat :=
  match p with
  | PEnter _ _ (Some _) | PScan _ | PStreamEnter | PDrops _ (AReenter _ _ _) => 1
  | _ => 0
  end.

Definition np_w (f : pc -> nat) (np : option pc) : nat := match np with Some p => f p | None => 0 end.

Definition busy_l (ops : list (aid * pc)) (g : gid) : bool := existsb (fun ap => pc_drops (snd ap) g) ops.
Definition live_l (ops : list (aid * pc)) (gs : list (gid * key)) : nat :=
  length (filter (fun gk => negb (busy_l ops (fst gk))) gs).

Definition n1 (s : state) : nat := asum bulk_w (s_ops s).
Definition n2 (s : state) : nat := asum pc_w2 (s_ops s) + 3 * live_l (s_ops s) (s_guards s).

Definition lt2 (s' s : state) : Prop := n1 s' < n1 s \/ (n1 s' = n1 s /\ n2 s' < n2 s).

(* how many live guards a step adds *)
Definition geff_live (ge : geff) : nat := match ge with GNew _ => 1 | _ => 0 end.

Lemma rtrans_decreases p np ge : rtrans p np ge -> pc_shape p ->
  np_w bulk_w np < bulk_w p \/
  (np_w bulk_w np = bulk_w p /\ ge <> GBulk /\ np_w pc_w2 np + 3 * geff_live ge < pc_w2 p).
Proof.
  intros H Hs. destruct H; cbn; try (destruct lim as [n0|]; cbn);
    try (left; lia); try (right; split; [reflexivity|split; [discriminate|lia]]).
  - (* PDrops [g] af, af not a re-entry *)
    destruct af; cbn; try (right; split; [reflexivity|split; [discriminate|lia]]).
    exfalso. eapply H; eauto.
Qed.

Lemma asum_sub_aset k st st' subs : aget k subs = Some st ->
  asum sub_w2 (aset k st' subs) + sub_w2 st = asum sub_w2 subs + sub_w2 st'.
Proof. apply asum_aset. Qed.

Lemma strans_decreases g0 k p np ge : strans g0 k p np ge -> NoDup (akeys (subs_of p)) ->
  np_w bulk_w np = bulk_w p /\ ge <> GBulk /\ np_w pc_w2 np + 3 * geff_live ge < pc_w2 p.
Proof.
  intros H Hnd. destruct H; cbn [np_w bulk_w pc_w2 geff_live subs_of] in *; (split; [reflexivity|]); (split; [discriminate|]).
  - pose proof (asum_sub_aset k SInit SQueued subs H). cbn in *. lia.
  - destruct H as [H|H]; pose proof (asum_adel sub_w2 k _ subs Hnd H); cbn in *; lia.
  - destruct H as [H|H]; pose proof (asum_sub_aset k _ (SUnlocking g0) subs H); cbn in *; lia.
  - pose proof (asum_adel sub_w2 k _ subs Hnd H); cbn in *; lia.
  - destruct H as [H|H]; pose proof (asum_adel sub_w2 k _ subs Hnd H); cbn in *; lia.
  - destruct H as [H|H]; pose proof (asum_adel sub_w2 k _ subs Hnd H); cbn in *; lia.
Qed.

(* ------------------------------------------------------------------ *)
(* guards nobody is dropping yet *)

Lemma guard_busy_l s g : guard_busy s g = busy_l (s_ops s) g.
Proof. reflexivity. Qed.

Definition np_drops_b2 (np : option pc) (g : gid) : bool := match np with Some p => pc_drops p g | None => false end.

Lemma busy_split ops a p g : NoDup (akeys ops) -> aget a ops = Some p ->
  busy_l ops g = pc_drops p g || busy_l (adel a ops) g.
Proof.
  induction ops as [|[b q] t IH]; cbn; [discriminate|]. intros Hnd H. inversion Hnd; subst.
  destruct (Nat.eqb_spec a b).
  - inv H. rewrite asum_adel_notin; auto.
  - cbn. pose proof (IH H3 H) as E. unfold busy_l in E. rewrite E. destruct (pc_drops q g), (pc_drops p g); reflexivity.
Qed.

Lemma adel_upd_l ops a np : adel a (upd_l ops a np) = adel a ops.
Proof. destruct np; cbn; [apply adel_aset_same|apply adel_idem]. Qed.

Lemma nodup_upd_l ops a np : NoDup (akeys ops) -> NoDup (akeys (upd_l ops a np)).
Proof.
  intros H. destruct np; cbn; [apply akeys_aset_nodup; auto|rewrite akeys_adel; apply remove_nat_NoDup; auto].
Qed.

Lemma busy_upd ops a p np g : NoDup (akeys ops) -> aget a ops = Some p ->
  busy_l (upd_l ops a np) g = np_drops_b2 np g || busy_l (adel a ops) g.
Proof.
  intros Hnd Ha. destruct np as [p'|]; cbn [upd_l np_drops_b2].
  - rewrite (busy_split (aset a p' ops) a p' g); [|apply akeys_aset_nodup; auto|apply aget_aset_eq].
    rewrite adel_aset_same. reflexivity.
  - reflexivity.
Qed.

Lemma live_ext ops ops' gs : (forall g, In g (akeys gs) -> busy_l ops' g = busy_l ops g) -> live_l ops' gs = live_l ops gs.
Proof.
  intros H. unfold live_l. f_equal. apply filter_ext_in. intros [g k] Hin. cbn. rewrite H; auto.
  apply (in_map fst) in Hin. exact Hin.
Qed.

Lemma live_adel_busy ops g gs : busy_l ops g = true -> live_l ops (adel g gs) = live_l ops gs.
Proof.
  intros Hb. unfold live_l. induction gs as [|[g' k'] t IH]; cbn; auto.
  destruct (Nat.eqb_spec g g').
  - subst. rewrite Hb. cbn. exact IH.
  - cbn. destruct (negb (busy_l ops g')); cbn; rewrite IH; reflexivity.
Qed.

Lemma live_make_busy ops ops' g gs :
  NoDup (akeys gs) -> In g (akeys gs) -> busy_l ops g = false -> busy_l ops' g = true ->
  (forall g', g' <> g -> busy_l ops' g' = busy_l ops g') ->
  live_l ops' gs + 1 = live_l ops gs.
Proof.
  unfold live_l. induction gs as [|[g' k'] t IH]; cbn; [intros _ []|]. intros Hnd Hin Hb Hb' Hoth.
  inversion Hnd; subst. destruct (Nat.eq_dec g' g) as [->|Hne].
  - rewrite Hb, Hb'. cbn. f_equal.
    assert (E : filter (fun gk : gid * key => negb (busy_l ops' (fst gk))) t = filter (fun gk => negb (busy_l ops (fst gk))) t).
    { apply filter_ext_in. intros [g2 k2] Hin2. cbn. rewrite Hoth; auto. intros ->. apply H1. apply (in_map fst) in Hin2. exact Hin2. }
    rewrite E. lia.
  - destruct Hin as [Hin|Hin]; [exfalso; apply Hne; exact Hin|]. rewrite (Hoth g' Hne).
    destruct (negb (busy_l ops g')); cbn; rewrite <- (IH H2 Hin Hb Hb' Hoth); lia.
Qed.

(* drops of stream program counters under updates of their sub-future table *)
Definition sdrop (subs : list (key * sub)) (g : gid) : bool :=
  existsb (fun ks : key * sub => match snd ks with SUnlocking g' => Nat.eqb g g' | _ => false end) subs.

Definition unlocking (st : sub) : bool := match st with SUnlocking _ => true | _ => false end.

Lemma sdrop_aset_same subs k st st' g : aget k subs = Some st -> unlocking st = false -> unlocking st' = false ->
  sdrop (aset k st' subs) g = sdrop subs g.
Proof.
  unfold sdrop. induction subs as [|[k' s0] t IH]; cbn; [discriminate|].
  destruct (Nat.eqb_spec k k'); intros H U U'.
  - inv H. cbn. destruct st, st'; try discriminate; reflexivity.
  - cbn. rewrite IH; auto.
Qed.

Lemma sdrop_aset_unl subs k st g0 g : aget k subs = Some st -> unlocking st = false ->
  sdrop (aset k (SUnlocking g0) subs) g = Nat.eqb g g0 || sdrop subs g.
Proof.
  unfold sdrop. induction subs as [|[k' s0] t IH]; cbn; [discriminate|].
  destruct (Nat.eqb_spec k k'); intros H U.
  - inv H. cbn. destruct st; try discriminate; reflexivity.
  - cbn. rewrite IH; auto. destruct s0; cbn; try reflexivity.
    destruct (Nat.eqb g g1), (Nat.eqb g g0); reflexivity.
Qed.

Lemma sdrop_adel_same subs k st g : NoDup (akeys subs) -> aget k subs = Some st -> unlocking st = false ->
  sdrop (adel k subs) g = sdrop subs g.
Proof.
  unfold sdrop. induction subs as [|[k' s0] t IH]; cbn; [discriminate|]. intros Hnd. inversion Hnd; subst.
  destruct (Nat.eqb_spec k k'); intros H U.
  - inv H. rewrite asum_adel_notin; auto. destruct st; try discriminate; reflexivity.
  - cbn. rewrite IH; auto.
Qed.

Lemma sdrop_adel_unl subs k g0 g : NoDup (akeys subs) -> aget k subs = Some (SUnlocking g0) -> g <> g0 ->
  sdrop (adel k subs) g = sdrop subs g.
Proof.
  unfold sdrop. induction subs as [|[k' s0] t IH]; cbn; [discriminate|]. intros Hnd. inversion Hnd; subst.
  destruct (Nat.eqb_spec k k'); intros H Hne.
  - inv H. rewrite asum_adel_notin; auto. cbn. destruct (Nat.eqb_spec g g0); [congruence|reflexivity].
  - cbn. rewrite IH; auto.
Qed.

Lemma sdrop_nil subs g : sub_drops subs = [] -> sdrop subs g = false.
Proof.
  intros H. unfold sdrop. destruct (existsb _ subs) eqn:E; auto. exfalso.
  apply existsb_unlocking in E. rewrite H in E. destruct E.
Qed.

Lemma sdrop_aget subs k g : aget k subs = Some (SUnlocking g) -> sdrop subs g = true.
Proof.
  intros H. unfold sdrop. apply existsb_exists. exists (k, SUnlocking g). split; [apply aget_In; auto|cbn; apply Nat.eqb_refl].
Qed.

Lemma n_upd ops a p np : NoDup (akeys ops) -> aget a ops = Some p ->
  asum bulk_w (upd_l ops a np) + bulk_w p = asum bulk_w ops + np_w bulk_w np /\
  asum pc_w2 (upd_l ops a np) + pc_w2 p = asum pc_w2 ops + np_w pc_w2 np.
Proof.
  intros Hnd Ha. destruct np as [p'|]; cbn [upd_l np_w].
  - split; apply asum_aset; auto.
  - split; rewrite Nat.add_0_r; apply asum_adel; auto.
Qed.

Lemma fresh_not_busy s : Inv s -> DInv s -> busy_l (s_ops s) (s_gid s) = false.
Proof.
  intros HI HD. destruct (busy_l (s_ops s) (s_gid s)) eqn:E; auto. exfalso.
  apply existsb_exists in E as ([a p] & Hin & Hd). cbn in Hd.
  apply (In_aget _ _ _ (inv_nd_o _ HI)) in Hin. apply pc_drops_spec in Hd.
  eapply fresh_gid_not_dropped; eauto.
Qed.

(* the common part: a step of agent a that changes only a's program counter and the guard table as described *)
Lemma own_step_decreases s s' a p np ge :
  Inv s -> DInv s -> aget a (s_ops s) = Some p ->
  s_ops s' = upd_l (s_ops s) a np -> geff_ok s s' ge ->
  np_w bulk_w np = bulk_w p -> ge <> GBulk -> np_w pc_w2 np + 3 * geff_live ge < pc_w2 p ->
  (forall g0, In g0 (akeys (s_guards s)) -> (forall g, ge = GDel g -> g0 <> g) -> np_drops_b2 np g0 = pc_drops p g0) ->
  (forall k, ge = GNew k -> np_drops_b2 np (s_gid s) = false) ->
  (forall k, ge = GNewBusy k -> np_drops_b2 np (s_gid s) = true) ->
  (forall g, ge = GDel g -> pc_drops p g = true) ->
  lt2 s' s.
Proof.
  intros HI HD Ha Eo Hge Hb Hnb Hw B1 B2 B2' B3.
  pose proof (inv_nd_o _ HI) as Hnd.
  destruct (n_upd (s_ops s) a p np Hnd Ha) as [N1 N2].
  unfold lt2, n1, n2. rewrite Eo. right. split; [lia|].
  assert (BUSY : forall g0, In g0 (akeys (s_guards s)) -> (forall g, ge = GDel g -> g0 <> g) ->
                 busy_l (upd_l (s_ops s) a np) g0 = busy_l (s_ops s) g0).
  { intros g0 Hin Hne. rewrite (busy_upd (s_ops s) a p np g0 Hnd Ha), (busy_split (s_ops s) a p g0 Hnd Ha).
    rewrite (B1 g0 Hin Hne). reflexivity. }
  assert (FR : busy_l (adel a (s_ops s)) (s_gid s) = false).
  { pose proof (fresh_not_busy s HI HD) as F. rewrite (busy_split (s_ops s) a p _ Hnd Ha) in F.
    apply orb_false_iff in F as [_ F]. exact F. }
  assert (L : live_l (upd_l (s_ops s) a np) (s_guards s') = live_l (s_ops s) (s_guards s) + geff_live ge).
  { destruct ge as [|k|k|g|]; cbn [geff_ok geff_live] in *; try congruence.
    - rewrite Hge, Nat.add_0_r. apply live_ext. intros g0 Hin. apply BUSY; auto. intros; discriminate.
    - rewrite Hge. unfold live_l. cbn [filter fst].
      rewrite (busy_upd (s_ops s) a p np _ Hnd Ha), (B2 k eq_refl), FR. cbn.
      fold (live_l (upd_l (s_ops s) a np) (s_guards s)).
      rewrite (live_ext (s_ops s) (upd_l (s_ops s) a np) (s_guards s)); [unfold live_l; lia|].
      intros g0 Hin. apply BUSY; auto. intros; discriminate.
    - rewrite Hge, Nat.add_0_r. unfold live_l. cbn [filter fst].
      rewrite (busy_upd (s_ops s) a p np _ Hnd Ha), (B2' k eq_refl). cbn.
      fold (live_l (upd_l (s_ops s) a np) (s_guards s)).
      apply live_ext. intros g0 Hin. apply BUSY; auto. intros; discriminate.
    - rewrite Hge, Nat.add_0_r.
      rewrite (live_ext (s_ops s) (upd_l (s_ops s) a np) (adel g (s_guards s))).
      + apply live_adel_busy. rewrite (busy_split (s_ops s) a p g Hnd Ha), (B3 g eq_refl). reflexivity.
      + intros g0 Hin. rewrite akeys_adel in Hin. apply remove_nat_In in Hin as [Hin Hne].
        apply BUSY; auto. intros g' E. inv E. exact Hne. }
  rewrite L. lia.
Qed.

(* busy-ness facts of the two transition tables *)
Lemma rtrans_busy p np ge (gid0 : gid) : rtrans p np ge -> ge <> GBulk ->
  (forall g0, (forall g, ge = GDel g -> g0 <> g) -> np_drops_b2 np g0 = pc_drops p g0) /\
  (forall k, ge = GNew k -> np_drops_b2 np gid0 = false) /\
  (forall k, ge <> GNewBusy k) /\
  (forall g, ge = GDel g -> pc_drops p g = true).
Proof.
  intros H Hnb. destruct H; cbn [np_drops_b2 pc_drops]; try congruence;
    try (split; [intros; reflexivity|split; [intros; reflexivity|split; [intros; discriminate|intros; discriminate]]]).
  - (* PDrops (g :: g' :: r) *)
    split; [|split; [intros; discriminate|split; [intros; discriminate|]]].
    + intros g0 Hne. cbn. specialize (Hne g eq_refl). destruct (Nat.eqb_spec g0 g); [congruence|reflexivity].
    + intros g1 E. inv E. cbn. rewrite Nat.eqb_refl. reflexivity.
  - split; [|split; [intros; discriminate|split; [intros; discriminate|]]].
    + intros g0 Hne. cbn. specialize (Hne g eq_refl). destruct (Nat.eqb_spec g0 g); [congruence|reflexivity].
    + intros g1 E. inv E. cbn. rewrite Nat.eqb_refl. reflexivity.
  - split; [|split; [intros; discriminate|split; [intros; discriminate|]]].
    + intros g0 Hne. cbn. specialize (Hne g eq_refl). destruct (Nat.eqb_spec g0 g); [congruence|reflexivity].
    + intros g1 E. inv E. cbn. rewrite Nat.eqb_refl. reflexivity.
  - (* PStreamEnter *)
    split; [intros; apply (sdrop_nil subs g0 H)|split; [intros; discriminate|split; [intros; discriminate|intros; discriminate]]].
Qed.

Lemma strans_busy gid0 k p np ge : strans gid0 k p np ge -> pc_shape p -> NoDup (akeys (subs_of p)) ->
  pc_drops p gid0 = false ->
  (forall g0, g0 <> gid0 -> (forall g, ge = GDel g -> g0 <> g) -> np_drops_b2 np g0 = pc_drops p g0) /\
  (forall k', ge = GNew k' -> np_drops_b2 np gid0 = false) /\
  (forall k', ge = GNewBusy k' -> np_drops_b2 np gid0 = true) /\
  (forall g, ge = GDel g -> pc_drops p g = true).
Proof.
  assert (PD : forall subs g, pc_drops (PStream subs) g = sdrop subs g) by reflexivity.
  assert (PD' : forall subs g, pc_drops (PStreamDrop subs) g = sdrop subs g) by reflexivity.
  intros H Hsh Hnd Hfr. destruct H; cbn [np_drops_b2 subs_of pc_shape] in *; rewrite ?PD, ?PD' in *.
  - split; [intros; apply (sdrop_aset_same subs k SInit SQueued); auto|].
    split; [intros; discriminate|split; intros; discriminate].
  - assert (E : forall g0, sdrop (adel k subs) g0 = sdrop subs g0).
    { intros g0. destruct H as [H|H]; eapply sdrop_adel_same; eauto. }
    split; [intros; apply E|]. split; [intros; rewrite ?PD, E; exact Hfr|split; intros; discriminate].
  - assert (E : forall g0, sdrop (aset k (SUnlocking gid0) subs) g0 = Nat.eqb g0 gid0 || sdrop subs g0).
    { intros g0. destruct H as [H|H]; eapply sdrop_aset_unl; eauto. }
    split; [intros g0 Hne _; rewrite ?PD, E; destruct (Nat.eqb_spec g0 gid0); [congruence|reflexivity]|].
    split; [intros; discriminate|]. split; [intros; rewrite ?PD, E, Nat.eqb_refl; reflexivity|intros; discriminate].
  - split; [intros g0 _ Hne; apply (sdrop_adel_unl subs k g g0); auto|].
    split; [intros; discriminate|]. split; [intros; discriminate|].
    intros g1 E. inv E. eapply sdrop_aget; eauto.
  - destruct Hsh as [_ Hsd].
    split; [intros; symmetry; apply sdrop_nil; auto|]. split; [intros; discriminate|split; intros; discriminate].
  - destruct Hsh as [_ Hsd].
    split; [intros g0 _ _; rewrite ?PD, ?PD', (sdrop_nil subs g0 Hsd); apply sdrop_nil; apply sub_drops_adel; auto|].
    split; [intros; discriminate|split; intros; discriminate].
Qed.

(* EVERY step of the draining client decreases the measure *)
Theorem drain_step_decreases c s l s' o :
  Inv s -> DInv s -> SInv s -> drain_ok s l -> step c s l = ROk s' o -> lt2 s' s.
Proof.
  intros HI HD HS Hok H. pose proof (inv_nd_o _ HI) as Hnd.
  destruct l; cbn [drain_ok] in Hok; try contradiction.
  - (* LStart a (CDrop g) *)
    destruct c0; try contradiction. cbn [step] in H. unfold do_start in H.
    destruct (amem a (s_ops s)) eqn:Em; [discriminate|]. destruct (guard_live s g) eqn:El; inv H.
    assert (Ha : aget a (s_ops s) = None) by (unfold amem in Em; destruct (aget a (s_ops s)); [discriminate|auto]).
    unfold lt2, n1, n2. cbn [s_ops s_guards set_pc with_ops]. rewrite begin_unlock_ops, begin_unlock_guards.
    rewrite !asum_aset_new by auto. right. split; [cbn; lia|].
    unfold guard_live in El. apply andb_true_iff in El as [Eg Eb]. apply negb_true_iff in Eb. rewrite guard_busy_l in Eb.
    assert (Hin : In g (akeys (s_guards s))).
    { unfold amem in Eg. destruct (aget g (s_guards s)) eqn:E; [eapply aget_Some_keys; eauto|discriminate]. }
    assert (Hsplit : forall g0, busy_l (aset a (PDrops [g] ADoneUnit) (s_ops s)) g0 = Nat.eqb g0 g || busy_l (s_ops s) g0).
    { intros g0. rewrite (busy_split (aset a (PDrops [g] ADoneUnit) (s_ops s)) a (PDrops [g] ADoneUnit) g0);
        [|apply akeys_aset_nodup; auto|apply aget_aset_eq].
      rewrite adel_aset_same, asum_adel_notin by (apply aget_None_keys; auto). cbn. rewrite orb_false_r. reflexivity. }
    pose proof (live_make_busy (s_ops s) (aset a (PDrops [g] ADoneUnit) (s_ops s)) g (s_guards s) (inv_nd_g _ HI) Hin Eb) as LM.
    rewrite <- LM; [cbn; lia| |].
    + rewrite Hsplit, Nat.eqb_refl. reflexivity.
    + intros g' Hne. rewrite Hsplit. destruct (Nat.eqb_spec g' g); [congruence|reflexivity].
  - (* LResume *)
    destruct (aget a (s_ops s)) as [p|] eqn:Ha; [|cbn [step] in H; unfold do_resume in H; rewrite Ha in H; discriminate].
    pose proof (si_shape _ HS a p Ha) as Hsh.
    destruct (resume_trans c s a p o0 s' o Ha H) as (np & ge & Eo & Ht & Hge).
    destruct (rtrans_decreases p np ge Ht Hsh) as [Lb|(Eb & Hnb & Hw)].
    + destruct (n_upd (s_ops s) a p np Hnd Ha) as [N1 _]. unfold lt2, n1. rewrite Eo. left. lia.
    + destruct (rtrans_busy p np ge (s_gid s) Ht Hnb) as (B1 & B2 & B2' & B3).
      eapply (own_step_decreases s s' a p np ge); eauto.
      intros k E. exfalso. eapply B2'; eauto.
  - (* LSub *)
    destruct (aget a (s_ops s)) as [p|] eqn:Ha; [|cbn [step] in H; unfold do_sub in H; rewrite Ha in H; discriminate].
    pose proof (si_shape _ HS a p Ha) as Hsh. pose proof (di_subs _ HD a p Ha) as Hns.
    destruct (sub_trans c s a p k o0 s' o Ha H) as (np & ge & Eo & Ht & Hge).
    destruct (strans_decreases (s_gid s) k p np ge Ht Hns) as (Eb & Hnb & Hw).
    assert (Hfr : pc_drops p (s_gid s) = false).
    { destruct (pc_drops p (s_gid s)) eqn:E; auto. exfalso. apply pc_drops_spec in E. eapply fresh_gid_not_dropped; eauto. }
    destruct (strans_busy (s_gid s) k p np ge Ht Hsh Hns Hfr) as (B1 & B2 & B2' & B3).
    eapply (own_step_decreases s s' a p np ge); eauto.
    intros g0 Hin Hne. apply B1; auto. intros ->. eapply Inv_fresh_gid; eauto.
  - (* LCancel of an exhausted stream *)
    cbn [step] in H. unfold do_cancel in H. rewrite Hok in H. cbn in H. inv H.
    eapply (own_step_decreases s (fin s a) a (PStream []) None GSame); eauto; cbn; try reflexivity; try lia; try discriminate.
  - (* LCbReturn a CbErr false *)
    destruct r; try contradiction. destruct hold; try contradiction.
    cbn [step] in H. unfold do_cbreturn in H.
    destruct (aget a (s_ops s)) as [p|] eqn:Ha; [|discriminate]. destruct p; try discriminate. inv H.
    eapply (own_step_decreases s (fin s a) a (PInCb sh k lim offered) None GSame); eauto; cbn; try reflexivity; try lia; try discriminate.
Qed.

(* ------------------------------------------------------------------ *)
(* hence every draining run is finite *)

Definition drain_step (c : cfg) (s2 s1 : state) : Prop :=
  reachable c s1 /\ exists l o, drain_ok s1 l /\ step c s1 l = ROk s2 o.

Lemma reachable_step c s l s' o : reachable c s -> step c s l = ROk s' o -> reachable c s'.
Proof.
  intros [ls H] Hs. exists (ls ++ [l]).
  assert (A : forall s1 l1 s2, steps c s1 l1 s2 -> s2 = s -> steps c s1 (l1 ++ [l]) s').
  { intros s1 l1 s2 H1. induction H1 as [s1|s1 l0 s1' o0 ls1 s2 E H1 IH]; intros ->; cbn.
    - econstructor; eauto. constructor.
    - econstructor; eauto. }
  eapply A; eauto.
Qed.

Lemma lt2_wf : well_founded lt2.
Proof.
  assert (G : forall a b s, n1 s = a -> n2 s = b -> Acc lt2 s).
  { induction a as [a IHa] using lt_wf_ind. induction b as [b IHb] using lt_wf_ind.
    intros s E1 E2. constructor. intros s' [L|[L1 L2]].
    - apply (IHa (n1 s')) with (b := n2 s'); auto. lia.
    - apply (IHb (n2 s')); auto; lia. }
  intros s. eapply G; eauto.
Qed.

(* THE THEOREM: no infinite draining run starts in a reachable state, whatever the scheduler and the order in
   which the client drops its guards *)
Theorem draining_terminates c s : reachable c s -> Acc (drain_step c) s.
Proof.
  intros Hr. induction (lt2_wf s) as [s _ IH]. constructor. intros s2 [Hr1 (l & o & Hok & Hst)].
  apply IH; [|eapply reachable_step; eauto].
  eapply drain_step_decreases; eauto; [eapply reachable_inv|eapply reachable_dinv|eapply reachable_sinv]; eauto.
Qed.

(* ... and the only reachable state in which the draining client has no move is the state of rest *)
Theorem draining_ends_at_rest c s :
  reachable c s -> (forall s2, ~ drain_step c s2 s) -> s_ops s = [] /\ s_guards s = [].
Proof.
  intros Hr Hno.
  destruct (s_ops s) as [|x ops] eqn:Eo; [destruct (s_guards s) as [|y gs] eqn:Eg; [auto|]|]; exfalso.
  - destruct (never_stuck c s Hr) as (l0 & s' & o & Hok & Hst); [right; rewrite Eg; discriminate|].
    apply (Hno s'). split; eauto.
  - destruct (never_stuck c s Hr) as (l0 & s' & o & Hok & Hst); [left; rewrite Eo; discriminate|].
    apply (Hno s'). split; eauto.
Qed.
