//! Containers / guards abstraction (stage 2).
//!
//! Three backends: `H` = `LockableHashMap<u64,i64>`, `L` =
//! `LockableLruCache<u64,i64,MockClock>`, `P` = `LockPool<u64>`.
//!
//! The container of a run lives in a leaked `Box<Arc<C>>` ([`Handle`]): agents
//! get `&'static C` (borrowed API variants; the resulting guards have lifetime
//! `'static` and can be stored in the guard table) or `&'static Arc<C>` (the
//! `_owned` variants).  The executor takes the box back for
//! `into_entries_unordered` (`consume`) or to free the container at the end of a
//! run; if a run is abandoned with threads still inside the library the
//! container is simply leaked.
//!
//! The library's config trait is not nameable from outside the crate, so the
//! five concrete guard types are named through the `Lockable` trait's associated
//! types and `GuardLike` is implemented for each of them with a macro.

use crate::sched::{self, Cmd, Event, Report, UserPanic};
use crate::types::*;
use futures::stream::{Stream, StreamExt};
use lockable::verif_hooks::Snapshot;
use lockable::{AsyncLimit, LockPool, Lockable, LockableHashMap, LockableLruCache, SyncLimit, TimeProvider};
use std::cell::RefCell;
use std::future::Future;
use std::num::NonZeroUsize;
use std::pin::Pin;
use std::sync::atomic::{AtomicU64, Ordering};
use std::sync::{Arc, OnceLock};
use std::task::{Context, Poll};
use std::time::Duration;
use tokio::time::Instant;

// ---------------------------------------------------------------------------
// Mock clock

/// One tick of the model's clock in milliseconds. Deliberately not a whole number of seconds, so that code
/// which rounds `Instant`s or `Duration`s to seconds behaves differently from code that does not.
pub const TICK_MS: u64 = 250;

/// Integer-tick clock for backend `L`: `now() = base + secs * TICK_MS` (the field is called `secs` for
/// historical reasons; it counts ticks).
#[derive(Clone, Debug)]
pub struct MockClock {
    secs: Arc<AtomicU64>,
}

fn clock_base() -> Instant {
    static BASE: OnceLock<Instant> = OnceLock::new();
    *BASE.get_or_init(Instant::now)
}

thread_local! {
    /// The clock `MockClock::default()` hands out: the worker sets it before creating a container
    /// (`LockableLruCache::new()` obtains its time provider through `Default`).
    static CURRENT_CLOCK: RefCell<Option<MockClock>> = const { RefCell::new(None) };
}

impl MockClock {
    pub fn new() -> MockClock {
        clock_base();
        MockClock { secs: Arc::new(AtomicU64::new(0)) }
    }
    pub fn secs(&self) -> u64 {
        self.secs.load(Ordering::SeqCst)
    }
    pub fn advance(&self, d: u64) {
        self.secs.fetch_add(d, Ordering::SeqCst);
    }
    /// Clock seconds of a time stamp produced by this clock.
    pub fn secs_of(stamp: Instant) -> i64 {
        let base = clock_base();
        if stamp >= base {
            ((stamp - base).as_millis() / TICK_MS as u128) as i64
        } else {
            -(((base - stamp).as_millis() / TICK_MS as u128) as i64)
        }
    }
}

impl Default for MockClock {
    fn default() -> Self {
        CURRENT_CLOCK
            .with(|c| c.borrow().clone())
            .expect("MockClock::default() without a current clock (harness bug)")
    }
}

impl TimeProvider for MockClock {
    fn now(&self) -> Instant {
        clock_base() + Duration::from_millis(self.secs() * TICK_MS)
    }
}

// ---------------------------------------------------------------------------
// Concrete types

pub type HMap = LockableHashMap<Key, Val>;
pub type LCache = LockableLruCache<Key, Val, MockClock>;
pub type Pool = LockPool<Key>;

type HG = <HMap as Lockable<Key, Val>>::Guard<'static>;
type HOG = <HMap as Lockable<Key, Val>>::OwnedGuard;
type LG = <LCache as Lockable<Key, Val>>::Guard<'static>;
type LOG = <LCache as Lockable<Key, Val>>::OwnedGuard;
type PG = <Pool as Lockable<Key, ()>>::Guard<'static>;

// ---------------------------------------------------------------------------
// Guards

/// Object-safe view of a guard (all five concrete guard types implement it).
pub trait GuardLike: Send {
    fn key(&self) -> Key;
    /// `value()`
    fn value(&self) -> Option<Val>;
    /// `insert(v)`: returns the old value.
    fn insert(&mut self, v: Val) -> Option<Val>;
    /// `remove()`: returns the old value.
    fn remove(&mut self) -> Option<Val>;
    /// `value_mut().map(|x| *x = v)`: `Some(v)` if there was a value.
    fn set(&mut self, v: Val) -> Option<Val>;
    /// `try_insert(v)`: `Ok(v)` or `Err(())` = AlreadyExists.
    fn try_insert(&mut self, v: Val) -> Result<Val, ()>;
    /// `value_or_insert(v)`
    fn value_or_insert(&mut self, v: Val) -> Val;
    /// `value_or_insert_with(|| panic!())`; the panic carries the [`UserPanic`] payload.
    fn value_or_panic(&mut self) -> Val;
}

/// Raw library guard `R` -> its `GuardLike` newtype.
pub trait Wrap<R> {
    fn wrap(r: R) -> Self;
}

/// Coherence cannot tell the five projection types apart (it does not normalise them), so
/// each one gets a newtype wrapper and the trait is implemented for the wrapper.
macro_rules! impl_guardlike {
    // $w: wrapper name, $t: guard type, $to: library value -> Val, $from: Val -> library value
    ($w:ident, $t:ty, $to:expr, $from:expr) => {
        pub struct $w($t);
        impl Wrap<$t> for $w {
            fn wrap(g: $t) -> $w {
                $w(g)
            }
        }
        impl GuardLike for $w {
            fn key(&self) -> Key {
                *self.0.key()
            }
            fn value(&self) -> Option<Val> {
                self.0.value().map($to)
            }
            fn insert(&mut self, v: Val) -> Option<Val> {
                self.0.insert(($from)(v)).as_ref().map($to)
            }
            fn remove(&mut self) -> Option<Val> {
                self.0.remove().as_ref().map($to)
            }
            fn set(&mut self, v: Val) -> Option<Val> {
                self.0.value_mut().map(|x| {
                    *x = ($from)(v);
                    ($to)(&*x)
                })
            }
            fn try_insert(&mut self, v: Val) -> Result<Val, ()> {
                match self.0.try_insert(($from)(v)) {
                    Ok(x) => Ok(($to)(&*x)),
                    // `AlreadyExists` hands the rejected value back; if it is not the value that was passed
                    // in, the call is reported with a value no client ever stores, i.e. as a differing result
                    Err(lockable::TryInsertError::AlreadyExists { value }) => {
                        if ($to)(&value) == v { Err(()) } else { Ok(Val::MIN + 7) }
                    }
                }
            }
            fn value_or_insert(&mut self, v: Val) -> Val {
                ($to)(&*self.0.value_or_insert(($from)(v)))
            }
            fn value_or_panic(&mut self) -> Val {
                ($to)(&*self.0.value_or_insert_with(|| std::panic::panic_any(UserPanic)))
            }
        }
    };
}

fn val_id(v: &Val) -> Val {
    *v
}
fn val_same(v: Val) -> Val {
    v
}
/// Backend `P` has unit values; the harness shows them as `0`.
fn unit_to(_: &()) -> Val {
    0
}
fn unit_from(_: Val) {}

impl_guardlike!(HGw, HG, val_id, val_same);
impl_guardlike!(HOGw, HOG, val_id, val_same);
impl_guardlike!(LGw, LG, val_id, val_same);
impl_guardlike!(LOGw, LOG, val_id, val_same);
impl_guardlike!(PGw, PG, unit_to, unit_from);

pub type BoxGuard = Box<dyn GuardLike>;

/// Wrap a raw library guard `R` into its `GuardLike` newtype `W` and box it.
fn boxed<W: GuardLike + Wrap<R> + 'static, R>(g: R) -> BoxGuard {
    Box::new(W::wrap(g))
}
fn box_all<W: GuardLike + Wrap<R> + 'static, R>(gs: Vec<R>) -> Vec<BoxGuard> {
    gs.into_iter().map(boxed::<W, R>).collect()
}

// ---------------------------------------------------------------------------
// Eviction callbacks

/// Error type the eviction callback returns on `cbret .. err`.
#[derive(Debug, Clone, Copy, PartialEq, Eq)]
pub struct CbError;

/// The guards a callback still owns when it returns (`hold`). Dropped in offered order when the callback
/// returns or unwinds; every drop is bracketed by the harness-side events `DropBegin` / `GuardGone`, so
/// the monitors know exactly which guards exist without relying on where the library parks.
struct Held {
    cx: std::sync::Arc<sched::AgentCtx>,
    gs: std::collections::VecDeque<(Gid, BoxGuard)>,
}

impl Drop for Held {
    fn drop(&mut self) {
        while let Some((gid, g)) = self.gs.pop_front() {
            self.cx.push_event(Event::DropBegin(gid));
            drop(g);
            self.cx.push_event(Event::GuardGone(gid));
        }
    }
}

/// Take the offered guards back out of the table (`hold`), in offered order.
fn take_back(cx: &std::sync::Arc<sched::AgentCtx>, offered: &[Gkv]) -> Held {
    let mut t = cx.run.table.lock().unwrap();
    let gs = offered
        .iter()
        .map(|(g, _, _)| (*g, t.remove(g).expect("harness bug: `hold` but an offered guard left the table")))
        .collect();
    Held { cx: cx.clone(), gs }
}

fn finish_callback(res: CbRes, held: Option<Held>) -> Result<(), CbError> {
    // `held` is dropped when this function returns or unwinds: the implicit drop of the
    // guards the callback still owns. Every drop goes through `_unlock` and parks at `Entries`.
    let _held = held;
    match res {
        CbRes::Ok => Ok(()),
        CbRes::Err => Err(CbError),
        CbRes::Panic => std::panic::panic_any(UserPanic),
    }
}

/// The synchronous eviction callback (SyncLimit): moves the offered guards into the table,
/// tells the scheduler, and blocks until `cbret`.
pub fn sync_callback(gs: Vec<BoxGuard>) -> Result<(), CbError> {
    note_callback_entry();
    let cx = sched::current().expect("harness bug: eviction callback outside an agent");
    let offered: Vec<Gkv> = gs.into_iter().map(|g| cx.adopt(g)).collect();
    let (res, hold) = match cx.report_and_wait(Report::InCallback(offered.clone())) {
        Cmd::CbReturn(r, h) => (r, h),
        other => panic!("harness bug: command {:?} to an agent inside a sync callback", other),
    };
    let held = if hold { Some(take_back(&cx, &offered)) } else { None };
    finish_callback(res, held)
}

/// The asynchronous eviction callback (AsyncLimit). First poll: move the guards into the
/// table, flag "callback pending" and return `Pending`; the agent's poll loop then reports
/// `InCallback`. Second poll (after `cbret`): return / fail / panic. If the whole call is
/// cancelled in between, this future is just dropped; the guards stay in the table.
pub struct CbFuture {
    gs: Option<Vec<BoxGuard>>,
    offered: Vec<Gkv>,
}

/// Called at the very beginning of every eviction callback (for the async one: in the synchronous
/// part of the `FnMut`, before the future exists): user code must never run while the library
/// holds its global lock (C08, C15).
fn note_callback_entry() {
    if lockable::verif_hooks::glock_depth() != 0 {
        if let Some(cx) = sched::current() {
            cx.push_event(Event::BeforeCallback(true));
        }
    }
}

impl CbFuture {
    pub fn new(gs: Vec<BoxGuard>) -> CbFuture {
        note_callback_entry();
        CbFuture { gs: Some(gs), offered: Vec::new() }
    }
}

impl Future for CbFuture {
    type Output = Result<(), CbError>;
    fn poll(mut self: Pin<&mut Self>, _: &mut Context<'_>) -> Poll<Self::Output> {
        let cx = sched::current().expect("harness bug: eviction callback outside an agent");
        if let Some(gs) = self.gs.take() {
            let offered: Vec<Gkv> = gs.into_iter().map(|g| cx.adopt(g)).collect();
            self.offered = offered.clone();
            cx.set_cb_pending(offered);
            return Poll::Pending;
        }
        let (res, hold) = cx.take_cbret().expect("harness bug: callback future re-polled without cbret");
        let held = if hold { Some(take_back(&cx, &self.offered)) } else { None };
        Poll::Ready(finish_callback(res, held))
    }
}

// ---------------------------------------------------------------------------
// Calls

/// Result of an acquisition call.
pub enum LockOut {
    Guard(BoxGuard),
    TryFail,
    Err,
}

fn out_guard<W: GuardLike + Wrap<R> + 'static, R, E>(r: Result<R, E>) -> LockOut {
    match r {
        Ok(g) => LockOut::Guard(boxed::<W, R>(g)),
        Err(_) => LockOut::Err,
    }
}
fn out_try<W: GuardLike + Wrap<R> + 'static, R, E>(r: Result<Option<R>, E>) -> LockOut {
    match r {
        Ok(Some(g)) => LockOut::Guard(boxed::<W, R>(g)),
        Ok(None) => LockOut::TryFail,
        Err(_) => LockOut::Err,
    }
}

pub type BoxFut<T> = Pin<Box<dyn Future<Output = T>>>;
pub type BoxStream = Pin<Box<dyn Stream<Item = BoxGuard>>>;

/// Leaked `Box<Arc<C>>`; `Copy` so that agents can carry it.
pub struct Handle<C: 'static> {
    ptr: *mut Arc<C>,
}
impl<C> Clone for Handle<C> {
    fn clone(&self) -> Self {
        *self
    }
}
impl<C> Copy for Handle<C> {}
// The pointee is an Arc of a Send+Sync container; the scheduler guarantees that nobody uses the
// handle after `take`.
unsafe impl<C: Send + Sync> Send for Handle<C> {}
unsafe impl<C: Send + Sync> Sync for Handle<C> {}

impl<C> Handle<C> {
    fn new(c: C) -> Handle<C> {
        Handle { ptr: Box::into_raw(Box::new(Arc::new(c))) }
    }
    fn arc(&self) -> &'static Arc<C> {
        unsafe { &*self.ptr }
    }
    fn get(&self) -> &'static C {
        &**self.arc()
    }
    /// Take the container back. Safety: no agent thread may use the handle afterwards and no
    /// borrowed guard may be alive.
    unsafe fn take(self) -> Arc<C> {
        *Box::from_raw(self.ptr)
    }
}

fn convert_snapshot<V>(s: Snapshot<Key, V>, to: impl Fn(&V) -> Val) -> Snap {
    Snap {
        poisoned: s.poisoned,
        glock_held: s.glock_held,
        gone: false,
        entries: s
            .entries
            .into_iter()
            .map(|e| SnapEnt {
                key: e.key,
                locked: e.locked,
                value: e.value.as_ref().map(&to),
                has_value: e.has_value,
                stamp: e.stamp.map(MockClock::secs_of),
                replicas: e.num_replicas,
                addr: e.addr,
            })
            .collect(),
    }
}

/// All by-key acquisition variants for the two map backends (same API shape).
macro_rules! map_ops {
    ($modname:ident, $C:ty, $G:ty, $OG:ty, $GW:ty, $OGW:ty) => {
        mod $modname {
            use super::*;

            fn nz(lim: u64) -> NonZeroUsize {
                NonZeroUsize::new(lim as usize).expect("limit must be >= 1")
            }

            pub fn lock_sync(h: Handle<$C>, sh: Shape, owned: bool, key: Key, lim: u64) -> LockOut {
                let c: &'static $C = h.get();
                let a: &'static Arc<$C> = h.arc();
                match (sh, owned, lim) {
                    (Shape::B, false, 0) => out_guard::<$GW, _, _>(c.blocking_lock(key, SyncLimit::no_limit())),
                    (Shape::B, true, 0) => out_guard::<$OGW, _, _>(a.blocking_lock_owned(key, SyncLimit::no_limit())),
                    (Shape::T, false, 0) => out_try::<$GW, _, _>(c.try_lock(key, SyncLimit::no_limit())),
                    (Shape::T, true, 0) => out_try::<$OGW, _, _>(a.try_lock_owned(key, SyncLimit::no_limit())),
                    (Shape::B, false, n) => out_guard::<$GW, _, _>(c.blocking_lock(
                        key,
                        SyncLimit::SoftLimit {
                            max_entries: nz(n),
                            on_evict: |gs: Vec<$G>| sync_callback(box_all::<$GW, _>(gs)),
                        },
                    )),
                    (Shape::B, true, n) => out_guard::<$OGW, _, _>(a.blocking_lock_owned(
                        key,
                        SyncLimit::SoftLimit {
                            max_entries: nz(n),
                            on_evict: |gs: Vec<$OG>| sync_callback(box_all::<$OGW, _>(gs)),
                        },
                    )),
                    (Shape::T, false, n) => out_try::<$GW, _, _>(c.try_lock(
                        key,
                        SyncLimit::SoftLimit {
                            max_entries: nz(n),
                            on_evict: |gs: Vec<$G>| sync_callback(box_all::<$GW, _>(gs)),
                        },
                    )),
                    (Shape::T, true, n) => out_try::<$OGW, _, _>(a.try_lock_owned(
                        key,
                        SyncLimit::SoftLimit {
                            max_entries: nz(n),
                            on_evict: |gs: Vec<$OG>| sync_callback(box_all::<$OGW, _>(gs)),
                        },
                    )),
                    (Shape::A, _, _) | (Shape::TA, _, _) => unreachable!("async shape in lock_sync"),
                }
            }

            pub fn lock_async(h: Handle<$C>, sh: Shape, owned: bool, key: Key, lim: u64) -> BoxFut<LockOut> {
                let c: &'static $C = h.get();
                let a: &'static Arc<$C> = h.arc();
                match (sh, owned, lim) {
                    (Shape::A, false, 0) => {
                        Box::pin(async move { out_guard::<$GW, _, _>(c.async_lock(key, AsyncLimit::no_limit()).await) })
                    }
                    (Shape::A, true, 0) => {
                        Box::pin(async move { out_guard::<$OGW, _, _>(a.async_lock_owned(key, AsyncLimit::no_limit()).await) })
                    }
                    (Shape::TA, false, 0) => {
                        Box::pin(async move { out_try::<$GW, _, _>(c.try_lock_async(key, AsyncLimit::no_limit()).await) })
                    }
                    (Shape::TA, true, 0) => Box::pin(async move {
                        out_try::<$OGW, _, _>(a.try_lock_owned_async(key, AsyncLimit::no_limit()).await)
                    }),
                    (Shape::A, false, n) => Box::pin(async move {
                        out_guard::<$GW, _, _>(
                            c.async_lock(
                                key,
                                AsyncLimit::SoftLimit {
                                    max_entries: nz(n),
                                    on_evict: |gs: Vec<$G>| CbFuture::new(box_all::<$GW, _>(gs)),
                                },
                            )
                            .await,
                        )
                    }),
                    (Shape::A, true, n) => Box::pin(async move {
                        out_guard::<$OGW, _, _>(
                            a.async_lock_owned(
                                key,
                                AsyncLimit::SoftLimit {
                                    max_entries: nz(n),
                                    on_evict: |gs: Vec<$OG>| CbFuture::new(box_all::<$OGW, _>(gs)),
                                },
                            )
                            .await,
                        )
                    }),
                    (Shape::TA, false, n) => Box::pin(async move {
                        out_try::<$GW, _, _>(
                            c.try_lock_async(
                                key,
                                AsyncLimit::SoftLimit {
                                    max_entries: nz(n),
                                    on_evict: |gs: Vec<$G>| CbFuture::new(box_all::<$GW, _>(gs)),
                                },
                            )
                            .await,
                        )
                    }),
                    (Shape::TA, true, n) => Box::pin(async move {
                        out_try::<$OGW, _, _>(
                            a.try_lock_owned_async(
                                key,
                                AsyncLimit::SoftLimit {
                                    max_entries: nz(n),
                                    on_evict: |gs: Vec<$OG>| CbFuture::new(box_all::<$OGW, _>(gs)),
                                },
                            )
                            .await,
                        )
                    }),
                    (Shape::B, _, _) | (Shape::T, _, _) => unreachable!("sync shape in lock_async"),
                }
            }

            /// `lock_all_entries()` / `lock_all_entries_owned()`: a future that yields the stream.
            pub fn stream(h: Handle<$C>, owned: bool) -> BoxFut<BoxStream> {
                let c: &'static $C = h.get();
                let a: &'static Arc<$C> = h.arc();
                if owned {
                    Box::pin(async move {
                        let s = a.lock_all_entries_owned().await;
                        Box::pin(s.map(boxed::<$OGW, _>)) as BoxStream
                    })
                } else {
                    Box::pin(async move {
                        let s = c.lock_all_entries().await;
                        Box::pin(s.map(boxed::<$GW, _>)) as BoxStream
                    })
                }
            }

            pub fn count(h: Handle<$C>) -> usize {
                h.get().num_entries_or_locked()
            }
            pub fn keys(h: Handle<$C>) -> Vec<Key> {
                h.get().keys_with_entries_or_locked()
            }
            pub fn snapshot(h: Handle<$C>) -> Snap {
                convert_snapshot(h.get().verif_snapshot(), |v| *v)
            }
            /// `into_entries_unordered()`. Safety: see `Handle::take`.
            pub unsafe fn consume(h: Handle<$C>) -> Result<Vec<(Key, Val)>, String> {
                match Arc::try_unwrap(h.take()) {
                    Ok(c) => Ok(c.into_entries_unordered().collect()),
                    Err(arc) => {
                        std::mem::forget(arc);
                        Err("harness: container is still shared (an owned guard is alive)".into())
                    }
                }
            }
            pub unsafe fn destroy(h: Handle<$C>) {
                drop(h.take());
            }
        }
    };
}

map_ops!(h_ops, HMap, HG, HOG, HGw, HOGw);
map_ops!(l_ops, LCache, LG, LOG, LGw, LOGw);

/// The container of one run.
#[derive(Clone, Copy)]
pub enum Cont {
    H(Handle<HMap>),
    L(Handle<LCache>),
    P(Handle<Pool>),
}

impl Cont {
    /// Create a fresh container; `clock` becomes the time provider of an `L` container.
    pub fn new(backend: Backend, clock: &MockClock) -> Cont {
        match backend {
            Backend::H => Cont::H(Handle::new(HMap::new())),
            Backend::L => {
                CURRENT_CLOCK.with(|c| *c.borrow_mut() = Some(clock.clone()));
                let c = LCache::new();
                CURRENT_CLOCK.with(|c| *c.borrow_mut() = None);
                Cont::L(Handle::new(c))
            }
            Backend::P => Cont::P(Handle::new(Pool::new())),
        }
    }

    pub fn backend(&self) -> Backend {
        match self {
            Cont::H(_) => Backend::H,
            Cont::L(_) => Backend::L,
            Cont::P(_) => Backend::P,
        }
    }

    /// Whether this backend offers the given call at all.
    pub fn supports(backend: Backend, call: &Call, owned: bool) -> Result<(), String> {
        match (backend, call) {
            (Backend::P, Call::Lock { sh, lim, .. }) => {
                if *lim != 0 {
                    Err("LockPool has no limits".into())
                } else if *sh == Shape::TA {
                    Err("LockPool has no try_lock_async".into())
                } else if owned {
                    Err("LockPool has no _owned variants".into())
                } else {
                    Ok(())
                }
            }
            (Backend::P, Call::Stream) => Err("LockPool has no lock_all_entries".into()),
            (Backend::P, Call::Expire(_)) | (Backend::H, Call::Expire(_)) => {
                Err("lock_entries_unlocked_for_at_least exists only on the LRU cache".into())
            }
            _ => Ok(()),
        }
    }

    /// `blocking_lock` / `try_lock` (+ `_owned`); blocks the calling agent thread.
    pub fn lock_sync(&self, sh: Shape, owned: bool, key: Key, lim: u64) -> LockOut {
        match self {
            Cont::H(h) => h_ops::lock_sync(*h, sh, owned, key, lim),
            Cont::L(h) => l_ops::lock_sync(*h, sh, owned, key, lim),
            Cont::P(h) => {
                let c: &'static Pool = h.get();
                match sh {
                    Shape::B => LockOut::Guard(boxed::<PGw, _>(c.blocking_lock(key))),
                    Shape::T => match c.try_lock(key) {
                        Some(g) => LockOut::Guard(boxed::<PGw, _>(g)),
                        None => LockOut::TryFail,
                    },
                    _ => unreachable!("async shape in lock_sync"),
                }
            }
        }
    }

    /// `async_lock` / `try_lock_async` (+ `_owned`) as a boxed future.
    pub fn lock_async(&self, sh: Shape, owned: bool, key: Key, lim: u64) -> BoxFut<LockOut> {
        match self {
            Cont::H(h) => h_ops::lock_async(*h, sh, owned, key, lim),
            Cont::L(h) => l_ops::lock_async(*h, sh, owned, key, lim),
            Cont::P(h) => {
                let c: &'static Pool = h.get();
                Box::pin(async move { LockOut::Guard(boxed::<PGw, _>(c.async_lock(key).await)) })
            }
        }
    }

    /// `lock_entries_unlocked_for_at_least(d)` (L only); `None` = `Duration::MAX`.
    pub fn expire(&self, owned: bool, d: Option<u64>) -> Vec<BoxGuard> {
        let dur = match d {
            Some(s) => Duration::from_millis(s * TICK_MS),
            None => Duration::MAX,
        };
        match self {
            Cont::L(h) => {
                if owned {
                    h.arc().lock_entries_unlocked_for_at_least_owned(dur).map(boxed::<LOGw, _>).collect()
                } else {
                    h.get().lock_entries_unlocked_for_at_least(dur).map(boxed::<LGw, _>).collect()
                }
            }
            _ => unreachable!("expire on a backend without expiry"),
        }
    }

    pub fn stream(&self, owned: bool) -> BoxFut<BoxStream> {
        match self {
            Cont::H(h) => h_ops::stream(*h, owned),
            Cont::L(h) => l_ops::stream(*h, owned),
            Cont::P(_) => unreachable!("stream on LockPool"),
        }
    }

    pub fn count(&self) -> usize {
        match self {
            Cont::H(h) => h_ops::count(*h),
            Cont::L(h) => l_ops::count(*h),
            Cont::P(h) => h.get().num_locked(),
        }
    }

    pub fn keys(&self) -> Vec<Key> {
        match self {
            Cont::H(h) => h_ops::keys(*h),
            Cont::L(h) => l_ops::keys(*h),
            Cont::P(h) => h.get().locked_keys(),
        }
    }

    /// `verif_snapshot()`; fires no hooks and runs no assertions.
    pub fn snapshot(&self) -> Snap {
        match self {
            Cont::H(h) => h_ops::snapshot(*h),
            Cont::L(h) => l_ops::snapshot(*h),
            Cont::P(h) => convert_snapshot(h.get().verif_snapshot(), unit_to),
        }
    }

    /// `into_entries_unordered()`. `LockPool` has no such call: the pool is dropped and the
    /// valued entries of the last snapshot are reported (values show as 0).
    /// Safety: no agent thread may use the container afterwards, no borrowed guard may be alive.
    pub unsafe fn consume(self) -> Result<Vec<(Key, Val)>, String> {
        match self {
            Cont::H(h) => h_ops::consume(h),
            Cont::L(h) => l_ops::consume(h),
            Cont::P(h) => {
                let snap = self.snapshot();
                drop(h.take());
                Ok(snap.entries.iter().filter_map(|e| e.value.map(|v| (e.key, v))).collect())
            }
        }
    }

    /// Free the container. Safety: as for `consume`.
    pub unsafe fn destroy(self) {
        match self {
            Cont::H(h) => h_ops::destroy(h),
            Cont::L(h) => l_ops::destroy(h),
            Cont::P(h) => drop(h.take()),
        }
    }
}
