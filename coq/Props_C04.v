(* C04 — exact accounting: no ghost keys, no leaked placeholders. *)
From Coq Require Import List Arith ZArith.
From LK Require Import AList Model Inv StepInv PropLemmas Seq DropInv Stream SeqRefine SeqLimit Conc.
Import ListNotations.

(* The key set of the map (what num_entries_or_locked counts and keys_with_entries_or_locked lists)
   is exactly: keys with a value, keys with a live guard, keys some in-flight call holds a handle on. *)
Theorem C04_keys_exact : forall c s k, reachable c s ->
  (In k (akeys (s_ents s)) <->
   valued s k \/ (exists g, In (g, k) (s_guards s)) \/
   (exists a p, In (a, p) (s_ops s) /\ 0 < pc_handles p k)).
Proof. intros c s k H. exact (keys_exact s k (reachable_inv c s H)). Qed.

(* With no guard and no call in flight, exactly the keys that have values. *)
Theorem C04_quiescent : forall c s k, reachable c s -> s_guards s = [] -> s_ops s = [] ->
  (In k (akeys (s_ents s)) <-> valued s k).
Proof. intros c s k H. exact (quiescent_keys s k (reachable_inv c s H)). Qed.

(* The two observation calls report that key set. *)
Theorem C04_count_reports_keys : forall c s a o s' n,
  aget a (s_ops s) = Some PCount -> step c s (LResume a o) = ROk s' (OCount n) -> n = length (akeys (s_ents s)).
Proof. exact count_obs. Qed.

Theorem C04_keys_reports_keys : forall c s a o s' l,
  reachable c s -> aget a (s_ops s) = Some PKeys -> step c s (LResume a o) = ROk s' (OKeys l) ->
  NoDup l /\ (forall k, In k l <-> In k (akeys (s_ents s))) /\ length l = length (akeys (s_ents s)).
Proof. intros c s a o s' l H. exact (keys_obs c s a o s' l (reachable_inv c s H)). Qed.

(* non-vacuity: failed try on a held valueless key, then drop: the placeholder is gone *)
(* At rest, in terms of the plain map that explains the history (Conc.v): the keys the container holds are exactly the
   keys that map gives a value to -- the comparison the linearisability stage makes at the end of every real-thread
   history. *)
Theorem C04_rest_keys_are_the_maps_keys : forall s sp,
  Inv s -> R s sp -> s_guards s = [] -> s_ops s = [] ->
  forall k, In k (akeys (s_ents s)) <-> sp_val sp k <> None.
Proof. exact rest_keys_are_the_maps_keys. Qed.

Example C04_witness :
  run (mkCfg false) [LStart 0 (CLock ShTry 1 None); LResume 0 []; LStart 1 (CLock ShTryAsync 1 None);
                     LResume 1 [1]; LResume 1 [1]; LResume 1 [1]; LStart 2 (CDrop 0); LResume 2 [1];
                     LStart 3 CCount; LResume 3 []]
  = RunOk (mkS [] [] [] 0%Z 1)
          [ONothing; OGuard 0 1 None; ONothing; ONothing; ONothing; OTryFail; ONothing; OUnit; ONothing; OCount 0].
Proof. vm_compute. reflexivity. Qed.
