//! `harness replay`: execute the `l` lines of a file and print the resulting trace.

use crate::exec::Executor;
use crate::types::*;
use std::collections::{HashMap, VecDeque};

pub struct ReplayResult {
    /// The trace text (header .. `end` line).
    pub text: String,
    pub violations: Vec<Violation>,
    /// Number of input labels that could not be executed as written (skipped, or consumed as
    /// a different stream label). 0 = the replay followed the file exactly.
    pub divergences: usize,
}

/// Backend / variant recorded in the `trace` header of a file, if any.
pub fn header_info(text: &str) -> (Option<Backend>, Option<bool>) {
    for line in text.lines() {
        let t: Vec<&str> = line.split_whitespace().collect();
        if t.first() == Some(&"trace") && t.len() >= 3 {
            let owned = if t.iter().any(|x| *x == "variant=owned") {
                Some(true)
            } else if t.iter().any(|x| *x == "variant=borrowed") {
                Some(false)
            } else {
                None
            };
            return (Backend::parse(t[2]), owned);
        }
    }
    (None, None)
}

pub fn variant_text(owned: bool) -> &'static str {
    if owned {
        "variant=owned"
    } else {
        "variant=borrowed"
    }
}

/// Guard ids a recorded observation line (`o ...`) says were created.
fn created_in_obs_text(o: &str) -> Vec<Gid> {
    let t: Vec<&str> = o.split_whitespace().collect();
    match t.first().copied() {
        Some("guard") | Some("item") => t.get(1).and_then(|x| x.parse().ok()).into_iter().collect(),
        Some("offered") | Some("expired") => t
            .get(1)
            .map(|l| l.split(',').filter_map(|e| e.split(':').next().and_then(|g| g.parse().ok())).collect())
            .unwrap_or_default(),
        _ => Vec::new(),
    }
}

fn created_in_obs(o: &Obs) -> Vec<Gid> {
    match o {
        Obs::Guard(g, _, _) | Obs::Item(g, _, _) => vec![*g],
        Obs::Offered(l) | Obs::Expired(l) => l.iter().map(|x| x.0).collect(),
        _ => Vec::new(),
    }
}

/// Execute the labels found in `text` (lines starting with `l `; everything else is ignored).
///
/// * Agent ids of the file are mapped to the ids the harness assigns (they differ only if
///   labels were removed from a recorded trace).
/// * `sub` / `pollend` labels drive the stream agent segment by segment: one segment may
///   produce several labels; they are printed when the segment runs and the following input
///   labels that merely name them are consumed silently.
/// * Labels that are not enabled are skipped with a `#` comment.
/// * Guard ids: if the file carries `o` lines (a recorded trace), the guards each label created there are
///   matched, in order, with the guards the same label creates now, and later `gop` / `drop` labels are
///   translated accordingly -- so a trace from which labels were removed (shrinking) still addresses the
///   guards it meant.
/// * Unlike the explorer, replay goes on after a monitor hit (hits are shown as comments).
pub fn replay(text: &str, id: &str, backend: Backend, owned: bool, note: &str) -> ReplayResult {
    let mut ex = Executor::new(backend, owned);
    let mut out = String::new();
    out.push_str(&format!("trace {} {} {} {}\n", id, backend.name(), variant_text(ex.owned), note));
    let mut aid_map: HashMap<Aid, Aid> = HashMap::new();
    // labels a stream segment produced that the input has not named yet
    let mut produced: HashMap<Aid, VecDeque<Label>> = HashMap::new();
    let mut seen_viol = 0usize;
    let mut divergences = 0usize;

    let emit = |ex: &Executor, out: &mut String, lines: Vec<TraceLine>, seen: &mut usize| {
        for l in lines {
            out.push_str(&l.text());
            out.push('\n');
        }
        while *seen < ex.violations.len() {
            let v = &ex.violations[*seen];
            out.push_str(&format!("# violation {} {}\n", v.id, v.text));
            *seen += 1;
        }
    };

    // (label text, guard ids the recorded trace says this label created)
    let mut items: Vec<(String, Vec<Gid>)> = Vec::new();
    for line in text.lines() {
        let line = line.trim();
        if let Some(rest) = line.strip_prefix("l ") {
            items.push((rest.to_string(), Vec::new()));
        } else if let Some(rest) = line.strip_prefix("o ") {
            if let Some(last) = items.last_mut() {
                last.1.extend(created_in_obs_text(rest));
            }
        }
    }
    let mut gid_map: HashMap<Gid, Gid> = HashMap::new();
    for (rest, file_created) in &items {
        let rest = rest.as_str();
        let mut now_created: Vec<Gid> = Vec::new();
        let label = match Label::parse(rest) {
            Ok(l) => l,
            Err(e) => {
                out.push_str(&format!("# cannot parse: {}\n", e));
                divergences += 1;
                continue;
            }
        };
        let map = |a: &Aid, m: &HashMap<Aid, Aid>| m.get(a).copied().unwrap_or(*a);
        let action = match &label {
            Label::Start(a, c) => {
                aid_map.insert(*a, ex.agents.len());
                let c = match c {
                    Call::Drop(g) => Call::Drop(gid_map.get(g).copied().unwrap_or(*g)),
                    other => *other,
                };
                Some(Action::Start(c))
            }
            Label::Resume(a, _) => Some(Action::Resume(map(a, &aid_map))),
            Label::Cancel(a) => Some(Action::Cancel(map(a, &aid_map))),
            Label::Gop(g, op) => Some(Action::Gop(gid_map.get(g).copied().unwrap_or(*g), *op)),
            Label::CbRet(a, r, h) => Some(Action::CbRet(map(a, &aid_map), *r, *h)),
            Label::Tick(d) => Some(Action::Tick(*d)),
            Label::Consume(_) => Some(Action::Consume),
            Label::Sub(..) | Label::PollEnd(_) => None,
        };
        match action {
            Some(act) => match ex.apply(&act) {
                Ok(Some(seg)) => {
                    // a stream cancel may produce several labels too
                    if let Action::Cancel(a) = act {
                        let q = produced.entry(a).or_default();
                        q.clear();
                        q.extend(seg.steps.iter().skip(1).map(|s| s.0.clone()));
                    }
                    for (_, o) in &seg.steps {
                        now_created.extend(created_in_obs(o));
                    }
                    let lines = seg.lines(backend);
                    emit(&ex, &mut out, lines, &mut seen_viol);
                }
                Ok(None) => {}
                Err(e) => {
                    divergences += 1;
                    out.push_str(&format!("# skipped '{}': {}\n", rest, e))
                }
            },
            None => {
                let a = match &label {
                    Label::Sub(a, _, _) | Label::PollEnd(a) => map(a, &aid_map),
                    _ => unreachable!(),
                };
                let mut guard = 0;
                loop {
                    if let Some(p) = produced.entry(a).or_default().pop_front() {
                        let same = match (&p, &label) {
                            (Label::Sub(_, k1, _), Label::Sub(_, k2, _)) => k1 == k2,
                            (Label::PollEnd(_), Label::PollEnd(_)) => true,
                            _ => false,
                        };
                        if !same {
                            divergences += 1;
                            out.push_str(&format!("# note: input label '{}' consumed as '{}'\n", rest, p.text()));
                        }
                        break;
                    }
                    guard += 1;
                    if guard > 1000 {
                        divergences += 1;
                        out.push_str(&format!("# skipped '{}': stream makes no progress\n", rest));
                        break;
                    }
                    match ex.apply(&Action::StreamStep(a)) {
                        Ok(Some(seg)) => {
                            produced.entry(a).or_default().extend(seg.steps.iter().map(|s| s.0.clone()));
                            for (_, o) in &seg.steps {
                                now_created.extend(created_in_obs(o));
                            }
                            let lines = seg.lines(backend);
                            emit(&ex, &mut out, lines, &mut seen_viol);
                        }
                        Ok(None) => {}
                        Err(e) => {
                            divergences += 1;
                            out.push_str(&format!("# skipped '{}': {}\n", rest, e));
                            break;
                        }
                    }
                }
            }
        }
        for (f, n) in file_created.iter().zip(now_created.iter()) {
            gid_map.insert(*f, *n);
        }
    }
    let violations = ex.violations.clone();
    match violations.first() {
        None => out.push_str("end ok\n"),
        Some(v) => out.push_str(&format!("end violation {} {}\n", v.id, v.text)),
    }
    ex.teardown();
    ReplayResult { text: out, violations, divergences }
}
