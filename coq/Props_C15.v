(* C15 — a panicking user callback cannot corrupt or wedge the container. *)
From Coq Require Import List Arith ZArith.
From LK Require Import AList Model Inv StepInv NoPanic PropLemmas.
Import ListNotations.

(* A panic in the eviction callback (sync or async; whether it already gave its guards away or still owns
   them) leaves exactly the state that an error return leaves; only what the caller sees differs. *)
Theorem C15_callback_panic_like_error : forall c s a hold s1 o1 s2 o2,
  step c s (LCbReturn a CbPanic hold) = ROk s1 o1 -> step c s (LCbReturn a CbErr hold) = ROk s2 o2 ->
  s_ents s1 = s_ents s2 /\ s_guards s1 = s_guards s2 /\ s_clock s1 = s_clock s2 /\ s_gid s1 = s_gid s2 /\
  (forall a', a' <> a -> aget a' (s_ops s1) = aget a' (s_ops s2)) /\
  match aget a (s_ops s1), aget a (s_ops s2) with
  | None, None => o1 = OPanicked /\ o2 = OErr
  | Some (PDrops gs1 ADonePanicked), Some (PDrops gs2 ADoneErr) => gs1 = gs2 /\ o1 = ONothing /\ o2 = ONothing
  | _, _ => False
  end.
Proof. exact callback_panic_like_error. Qed.

(* The guards the callback still owned are released one by one through the ordinary unlock step; the last
   one reports the panic to the caller, the call is gone, that guard is gone. *)
Theorem C15_panic_reaches_caller : forall c s a g o s' ob,
  aget a (s_ops s) = Some (PDrops [g] ADonePanicked) -> step c s (LResume a o) = ROk s' ob ->
  ob = OPanicked /\ aget a (s_ops s') = None /\ ~ In g (akeys (s_guards s')).
Proof. exact drops_after_panic_report. Qed.

(* A panic in the closure of value_or_insert_with changes nothing: the stored values are those committed
   before, the guard stays usable. *)
Theorem C15_closure_panic : forall c s g s' ob,
  step c s (LGuardOp g GClosurePanic) = ROk s' ob -> s' = s /\ (ob = OPanicked \/ exists v, ob = OVal (Some v)).
Proof. exact closure_panic_no_effect. Qed.

(* Values: nothing the library does around a panicking callback changes a value (C02), ... *)
Theorem C15_values_are_those_committed : forall c s l s' o,
  step c s l = ROk s' o -> changes_values l = false -> forall k, vof s' k = vof s k.
Proof. exact step_values_unchanged. Qed.

(* ... and the container stays fully usable: every state after the panic is reachable, so it satisfies
   the invariant (exact counts: C04), nothing panics (C13: not poisoned), runnable calls are enabled (C03). *)
Theorem C15_still_consistent : forall c s l s' o, reachable c s -> step c s l = ROk s' o -> Inv s'.
Proof. intros c s l s' o H. exact (step_inv c s l s' o (reachable_inv c s H)). Qed.

Example C15_witness :
  exists s, run (mkCfg false)
    [LStart 0 (CLock ShTry 1 None); LResume 0 []; LGuardOp 0 (GInsert 10%Z); LStart 1 (CDrop 0); LResume 1 [1];
     LStart 2 (CLock ShBlocking 2 (Some 1)); LResume 2 [1]; LCbReturn 2 CbPanic true; LResume 2 [1];
     LStart 3 (CLock ShTry 1 None); LResume 3 [1]; LResume 3 [1]; LGuardOp 2 GClosurePanic]
  = RunOk s [ONothing; OGuard 0 1 None; OVal None; ONothing; OUnit;
             ONothing; OOffered [(1, 1, 10%Z)]; ONothing; OPanicked;
             ONothing; ONothing; OGuard 2 1 (Some 10%Z); OVal (Some 10%Z)].
Proof. eexists. vm_compute. reflexivity. Qed.
