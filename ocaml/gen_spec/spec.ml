
(** val negb : bool -> bool **)

let negb = function
| true -> false
| false -> true

type nat =
| O
| S of nat

type ('a, 'b) sum =
| Inl of 'a
| Inr of 'b

(** val fst : ('a1 * 'a2) -> 'a1 **)

let fst = function
| (x, _) -> x

(** val snd : ('a1 * 'a2) -> 'a2 **)

let snd = function
| (_, y) -> y

(** val length : 'a1 list -> nat **)

let rec length = function
| [] -> O
| _ :: l' -> S (length l')

(** val app : 'a1 list -> 'a1 list -> 'a1 list **)

let rec app l m =
  match l with
  | [] -> m
  | a :: l1 -> a :: (app l1 m)

type comparison =
| Eq
| Lt
| Gt

(** val compOpp : comparison -> comparison **)

let compOpp = function
| Eq -> Eq
| Lt -> Gt
| Gt -> Lt

module Coq__1 = struct
 (** val add : nat -> nat -> nat **)
 let rec add n m =
   match n with
   | O -> m
   | S p -> S (add p m)
end
include Coq__1

(** val sub : nat -> nat -> nat **)

let rec sub n m =
  match n with
  | O -> n
  | S k -> (match m with
            | O -> n
            | S l -> sub k l)

module Nat =
 struct
  (** val eqb : nat -> nat -> bool **)

  let rec eqb n m =
    match n with
    | O -> (match m with
            | O -> true
            | S _ -> false)
    | S n' -> (match m with
               | O -> false
               | S m' -> eqb n' m')

  (** val leb : nat -> nat -> bool **)

  let rec leb n m =
    match n with
    | O -> true
    | S n' -> (match m with
               | O -> false
               | S m' -> leb n' m')

  (** val ltb : nat -> nat -> bool **)

  let ltb n m =
    leb (S n) m
 end

(** val map : ('a1 -> 'a2) -> 'a1 list -> 'a2 list **)

let rec map f = function
| [] -> []
| a :: t -> (f a) :: (map f t)

(** val existsb : ('a1 -> bool) -> 'a1 list -> bool **)

let rec existsb f = function
| [] -> false
| a :: l0 -> (||) (f a) (existsb f l0)

(** val forallb : ('a1 -> bool) -> 'a1 list -> bool **)

let rec forallb f = function
| [] -> true
| a :: l0 -> (&&) (f a) (forallb f l0)

(** val filter : ('a1 -> bool) -> 'a1 list -> 'a1 list **)

let rec filter f = function
| [] -> []
| x :: l0 -> if f x then x :: (filter f l0) else filter f l0

type positive =
| XI of positive
| XO of positive
| XH

type z =
| Z0
| Zpos of positive
| Zneg of positive

module Pos =
 struct
  (** val succ : positive -> positive **)

  let rec succ = function
  | XI p -> XO (succ p)
  | XO p -> XI p
  | XH -> XO XH

  (** val add : positive -> positive -> positive **)

  let rec add x y =
    match x with
    | XI p ->
      (match y with
       | XI q -> XO (add_carry p q)
       | XO q -> XI (add p q)
       | XH -> XO (succ p))
    | XO p ->
      (match y with
       | XI q -> XI (add p q)
       | XO q -> XO (add p q)
       | XH -> XI p)
    | XH -> (match y with
             | XI q -> XO (succ q)
             | XO q -> XI q
             | XH -> XO XH)

  (** val add_carry : positive -> positive -> positive **)

  and add_carry x y =
    match x with
    | XI p ->
      (match y with
       | XI q -> XI (add_carry p q)
       | XO q -> XO (add_carry p q)
       | XH -> XI (succ p))
    | XO p ->
      (match y with
       | XI q -> XO (add_carry p q)
       | XO q -> XI (add p q)
       | XH -> XO (succ p))
    | XH ->
      (match y with
       | XI q -> XI (succ q)
       | XO q -> XO (succ q)
       | XH -> XI XH)

  (** val pred_double : positive -> positive **)

  let rec pred_double = function
  | XI p -> XI (XO p)
  | XO p -> XI (pred_double p)
  | XH -> XH

  (** val mul : positive -> positive -> positive **)

  let rec mul x y =
    match x with
    | XI p -> add y (XO (mul p y))
    | XO p -> XO (mul p y)
    | XH -> y

  (** val iter : ('a1 -> 'a1) -> 'a1 -> positive -> 'a1 **)

  let rec iter f x = function
  | XI n' -> f (iter f (iter f x n') n')
  | XO n' -> iter f (iter f x n') n'
  | XH -> f x

  (** val compare_cont : comparison -> positive -> positive -> comparison **)

  let rec compare_cont r x y =
    match x with
    | XI p ->
      (match y with
       | XI q -> compare_cont r p q
       | XO q -> compare_cont Gt p q
       | XH -> Gt)
    | XO p ->
      (match y with
       | XI q -> compare_cont Lt p q
       | XO q -> compare_cont r p q
       | XH -> Gt)
    | XH -> (match y with
             | XH -> r
             | _ -> Lt)

  (** val compare : positive -> positive -> comparison **)

  let compare =
    compare_cont Eq

  (** val eqb : positive -> positive -> bool **)

  let rec eqb p q =
    match p with
    | XI p0 -> (match q with
                | XI q0 -> eqb p0 q0
                | _ -> false)
    | XO p0 -> (match q with
                | XO q0 -> eqb p0 q0
                | _ -> false)
    | XH -> (match q with
             | XH -> true
             | _ -> false)

  (** val iter_op : ('a1 -> 'a1 -> 'a1) -> positive -> 'a1 -> 'a1 **)

  let rec iter_op op p a =
    match p with
    | XI p0 -> op a (iter_op op p0 (op a a))
    | XO p0 -> iter_op op p0 (op a a)
    | XH -> a

  (** val to_nat : positive -> nat **)

  let to_nat x =
    iter_op Coq__1.add x (S O)

  (** val of_succ_nat : nat -> positive **)

  let rec of_succ_nat = function
  | O -> XH
  | S x -> succ (of_succ_nat x)
 end

module Z =
 struct
  (** val double : z -> z **)

  let double = function
  | Z0 -> Z0
  | Zpos p -> Zpos (XO p)
  | Zneg p -> Zneg (XO p)

  (** val succ_double : z -> z **)

  let succ_double = function
  | Z0 -> Zpos XH
  | Zpos p -> Zpos (XI p)
  | Zneg p -> Zneg (Pos.pred_double p)

  (** val pred_double : z -> z **)

  let pred_double = function
  | Z0 -> Zneg XH
  | Zpos p -> Zpos (Pos.pred_double p)
  | Zneg p -> Zneg (XI p)

  (** val pos_sub : positive -> positive -> z **)

  let rec pos_sub x y =
    match x with
    | XI p ->
      (match y with
       | XI q -> double (pos_sub p q)
       | XO q -> succ_double (pos_sub p q)
       | XH -> Zpos (XO p))
    | XO p ->
      (match y with
       | XI q -> pred_double (pos_sub p q)
       | XO q -> double (pos_sub p q)
       | XH -> Zpos (Pos.pred_double p))
    | XH ->
      (match y with
       | XI q -> Zneg (XO q)
       | XO q -> Zneg (Pos.pred_double q)
       | XH -> Z0)

  (** val add : z -> z -> z **)

  let add x y =
    match x with
    | Z0 -> y
    | Zpos x' ->
      (match y with
       | Z0 -> x
       | Zpos y' -> Zpos (Pos.add x' y')
       | Zneg y' -> pos_sub x' y')
    | Zneg x' ->
      (match y with
       | Z0 -> x
       | Zpos y' -> pos_sub y' x'
       | Zneg y' -> Zneg (Pos.add x' y'))

  (** val opp : z -> z **)

  let opp = function
  | Z0 -> Z0
  | Zpos x0 -> Zneg x0
  | Zneg x0 -> Zpos x0

  (** val sub : z -> z -> z **)

  let sub m n =
    add m (opp n)

  (** val mul : z -> z -> z **)

  let mul x y =
    match x with
    | Z0 -> Z0
    | Zpos x' ->
      (match y with
       | Z0 -> Z0
       | Zpos y' -> Zpos (Pos.mul x' y')
       | Zneg y' -> Zneg (Pos.mul x' y'))
    | Zneg x' ->
      (match y with
       | Z0 -> Z0
       | Zpos y' -> Zneg (Pos.mul x' y')
       | Zneg y' -> Zpos (Pos.mul x' y'))

  (** val pow_pos : z -> positive -> z **)

  let pow_pos z0 =
    Pos.iter (mul z0) (Zpos XH)

  (** val pow : z -> z -> z **)

  let pow x = function
  | Z0 -> Zpos XH
  | Zpos p -> pow_pos x p
  | Zneg _ -> Z0

  (** val compare : z -> z -> comparison **)

  let compare x y =
    match x with
    | Z0 -> (match y with
             | Z0 -> Eq
             | Zpos _ -> Lt
             | Zneg _ -> Gt)
    | Zpos x' -> (match y with
                  | Zpos y' -> Pos.compare x' y'
                  | _ -> Gt)
    | Zneg x' ->
      (match y with
       | Zneg y' -> compOpp (Pos.compare x' y')
       | _ -> Lt)

  (** val leb : z -> z -> bool **)

  let leb x y =
    match compare x y with
    | Gt -> false
    | _ -> true

  (** val ltb : z -> z -> bool **)

  let ltb x y =
    match compare x y with
    | Lt -> true
    | _ -> false

  (** val eqb : z -> z -> bool **)

  let eqb x y =
    match x with
    | Z0 -> (match y with
             | Z0 -> true
             | _ -> false)
    | Zpos p -> (match y with
                 | Zpos q -> Pos.eqb p q
                 | _ -> false)
    | Zneg p -> (match y with
                 | Zneg q -> Pos.eqb p q
                 | _ -> false)

  (** val to_nat : z -> nat **)

  let to_nat = function
  | Zpos p -> Pos.to_nat p
  | _ -> O

  (** val of_nat : nat -> z **)

  let of_nat = function
  | O -> Z0
  | S n0 -> Zpos (Pos.of_succ_nat n0)
 end

(** val aget : nat -> (nat * 'a1) list -> 'a1 option **)

let rec aget k = function
| [] -> None
| p :: t -> let (k', v) = p in if Nat.eqb k k' then Some v else aget k t

(** val aset : nat -> 'a1 -> (nat * 'a1) list -> (nat * 'a1) list **)

let rec aset k v = function
| [] -> (k, v) :: []
| p :: t ->
  let (k', v') = p in
  if Nat.eqb k k' then (k, v) :: t else (k', v') :: (aset k v t)

(** val adel : nat -> (nat * 'a1) list -> (nat * 'a1) list **)

let rec adel k = function
| [] -> []
| p :: t ->
  let (k', v') = p in
  if Nat.eqb k k' then adel k t else (k', v') :: (adel k t)

(** val akeys : (nat * 'a1) list -> nat list **)

let akeys m =
  map fst m

(** val amem : nat -> (nat * 'a1) list -> bool **)

let amem k m =
  match aget k m with
  | Some _ -> true
  | None -> false

(** val apromote : nat -> (nat * 'a1) list -> (nat * 'a1) list **)

let apromote k m =
  match aget k m with
  | Some v -> app (adel k m) ((k, v) :: [])
  | None -> m

(** val mem_nat : nat -> nat list -> bool **)

let rec mem_nat x = function
| [] -> false
| y :: t -> (||) (Nat.eqb x y) (mem_nat x t)

(** val remove_nat : nat -> nat list -> nat list **)

let rec remove_nat x = function
| [] -> []
| y :: t -> if Nat.eqb x y then remove_nat x t else y :: (remove_nat x t)

(** val nodup_nat : nat list -> bool **)

let rec nodup_nat = function
| [] -> true
| x :: t -> (&&) (negb (mem_nat x t)) (nodup_nat t)

(** val is_perm_of : nat list -> nat list -> bool **)

let is_perm_of o l =
  (&&) ((&&) (Nat.eqb (length o) (length l)) (nodup_nat o))
    (forallb (fun x -> mem_nat x l) o)

type key = nat

type aid = nat

type gid = nat

type own =
| OwnG of gid
| OwnW of aid

type entry = { e_val : (z * z) option; e_owner : own option;
               e_queue : aid list; e_repl : nat }

(** val set_val : entry -> (z * z) option -> entry **)

let set_val e v =
  { e_val = v; e_owner = e.e_owner; e_queue = e.e_queue; e_repl = e.e_repl }

(** val set_owner : entry -> own option -> entry **)

let set_owner e o =
  { e_val = e.e_val; e_owner = o; e_queue = e.e_queue; e_repl = e.e_repl }

(** val set_queue : entry -> aid list -> entry **)

let set_queue e q =
  { e_val = e.e_val; e_owner = e.e_owner; e_queue = q; e_repl = e.e_repl }

(** val set_repl : entry -> nat -> entry **)

let set_repl e r =
  { e_val = e.e_val; e_owner = e.e_owner; e_queue = e.e_queue; e_repl = r }

(** val mx_release : entry -> entry **)

let mx_release e =
  match e.e_queue with
  | [] -> set_owner e None
  | a :: q -> set_queue (set_owner e (Some (OwnW a))) q

(** val mx_cancel : entry -> aid -> entry **)

let mx_cancel e a =
  match e.e_owner with
  | Some o ->
    (match o with
     | OwnG _ -> set_queue e (remove_nat a e.e_queue)
     | OwnW a' ->
       if Nat.eqb a a'
       then mx_release e
       else set_queue e (remove_nat a e.e_queue))
  | None -> set_queue e (remove_nat a e.e_queue)

(** val own_is_waiter : own option -> aid -> bool **)

let own_is_waiter o a =
  match o with
  | Some o0 -> (match o0 with
                | OwnG _ -> false
                | OwnW a' -> Nat.eqb a a')
  | None -> false

type shape =
| ShBlocking
| ShAsync
| ShTry
| ShTryAsync

(** val sh_is_try : shape -> bool **)

let sh_is_try = function
| ShBlocking -> false
| ShAsync -> false
| _ -> true

(** val sh_is_async : shape -> bool **)

let sh_is_async = function
| ShBlocking -> false
| ShTry -> false
| _ -> true

type obs =
| ONothing
| OGuard of gid * key * z option
| OTryFail
| OErr
| OPanicked
| OUnit
| OCancelled
| OOffered of ((gid * key) * z) list
| OExpired of ((gid * key) * z) list
| OStream of key list
| OItem of gid * key * z
| OPending
| OEnd
| OCount of nat
| OKeys of key list
| OVal of z option
| OExists
| OConsumed of (key * z) list

type sub0 =
| SInit
| SQueued
| SUnlocking of gid

type after =
| ADoneUnit
| ADoneErr
| ADonePanicked
| AReenter of shape * key * nat

(** val after_obs : after -> obs **)

let after_obs = function
| ADoneUnit -> OUnit
| ADoneErr -> OErr
| ADonePanicked -> OPanicked
| AReenter (_, _, _) -> ONothing

type pc =
| PEnter of shape * key * nat option
| PInCb of shape * key * nat * gid list
| PKeyTry of shape * key
| PKeyWait of shape * key
| PQueued of shape * key
| PCleanup of shape * key
| PCancel of key
| PDrops of gid list * after
| PScan of z
| PStreamEnter
| PStream of (key * sub0) list
| PStreamDrop of (key * sub0) list
| PCount
| PKeys

type call =
| CLock of shape * key * nat option
| CDrop of gid
| CExpire of z
| CStream
| CCount
| CKeys

type gop =
| GInsert of z
| GRemove
| GSet of z
| GTryInsert of z
| GGetOrInsert of z
| GRead
| GClosurePanic

type cbres =
| CbOk
| CbErr
| CbPanic

type label =
| LStart of aid * call
| LResume of aid * key list
| LSub of aid * key * key list
| LPollEnd of aid
| LCancel of aid
| LGuardOp of gid * gop
| LCbReturn of aid * cbres * bool
| LTick of z
| LConsume of key list

type cfg = bool
  (* singleton inductive, whose constructor was mkCfg *)

(** val c_lru : cfg -> bool **)

let c_lru c =
  c

type state = { s_ents : (key * entry) list; s_guards : (gid * key) list;
               s_ops : (aid * pc) list; s_clock : z; s_gid : gid }

(** val init : state **)

let init =
  { s_ents = []; s_guards = []; s_ops = []; s_clock = Z0; s_gid = O }

type result =
| ROk of state * obs
| RInvalid
| RPanic of nat

(** val site_unlock_absent : nat **)

let site_unlock_absent =
  S (S O)

(** val site_cleanup_locked : nat **)

let site_cleanup_locked =
  S (S (S O))

(** val site_evict_none : nat **)

let site_evict_none =
  S (S (S (S O)))

(** val site_evict_locked : nat **)

let site_evict_locked =
  S (S (S (S (S O))))

(** val site_consume_shared : nat **)

let site_consume_shared =
  S (S (S (S (S (S O)))))

(** val site_consume_none : nat **)

let site_consume_none =
  S (S (S (S (S (S (S O))))))

(** val site_inv2 : nat **)

let site_inv2 =
  S (S (S (S (S (S (S (S O)))))))

(** val site_cancel_absent : nat **)

let site_cancel_absent =
  S (S (S (S (S (S (S (S (S O))))))))

(** val with_ents : state -> (key * entry) list -> state **)

let with_ents s e =
  { s_ents = e; s_guards = s.s_guards; s_ops = s.s_ops; s_clock = s.s_clock;
    s_gid = s.s_gid }

(** val with_guards : state -> (gid * key) list -> state **)

let with_guards s g =
  { s_ents = s.s_ents; s_guards = g; s_ops = s.s_ops; s_clock = s.s_clock;
    s_gid = s.s_gid }

(** val with_ops : state -> (aid * pc) list -> state **)

let with_ops s o =
  { s_ents = s.s_ents; s_guards = s.s_guards; s_ops = o; s_clock = s.s_clock;
    s_gid = s.s_gid }

(** val with_clock : state -> z -> state **)

let with_clock s c =
  { s_ents = s.s_ents; s_guards = s.s_guards; s_ops = s.s_ops; s_clock = c;
    s_gid = s.s_gid }

(** val with_gid : state -> gid -> state **)

let with_gid s g =
  { s_ents = s.s_ents; s_guards = s.s_guards; s_ops = s.s_ops; s_clock =
    s.s_clock; s_gid = g }

(** val set_pc : state -> aid -> pc -> state **)

let set_pc s a p =
  with_ops s (aset a p s.s_ops)

(** val fin : state -> aid -> state **)

let fin s a =
  with_ops s (adel a s.s_ops)

(** val val_of : entry -> z option **)

let val_of e =
  match e.e_val with
  | Some p -> let (v, _) = p in Some v
  | None -> None

(** val inv2_ok : (key * entry) list -> bool **)

let inv2_ok ents =
  forallb (fun ke ->
    let e = snd ke in
    if Nat.eqb e.e_repl O
    then (&&) (match e.e_owner with
               | Some _ -> false
               | None -> true)
           (match e.e_val with
            | Some _ -> true
            | None -> false)
    else true) ents

(** val iter_order : cfg -> state -> key list -> key list option **)

let iter_order c s o =
  if c_lru c
  then Some (akeys s.s_ents)
  else if is_perm_of o (akeys s.s_ents) then Some o else None

(** val promote_if_lru :
    cfg -> key -> (key * entry) list -> (nat * entry) list **)

let promote_if_lru c k ents =
  if c_lru c then apromote k ents else ents

(** val stamp_now : cfg -> state -> z **)

let stamp_now c s =
  if c_lru c then s.s_clock else Z0

(** val new_guard : state -> key -> state * gid **)

let new_guard s k =
  let g = s.s_gid in
  ((with_gid (with_guards s ((g, k) :: s.s_guards)) (S g)), g)

(** val do_lookup : cfg -> state -> aid -> shape -> key -> result **)

let do_lookup c s a sh k =
  match aget k s.s_ents with
  | Some e ->
    let ents = aset k (set_repl e (S e.e_repl)) (promote_if_lru c k s.s_ents)
    in
    let s1 = with_ents s ents in
    ROk
    ((set_pc s1 a
       (if sh_is_try sh then PKeyTry (sh, k) else PKeyWait (sh, k))),
    ONothing)
  | None ->
    let (s1, g) = new_guard s k in
    let ents =
      aset k { e_val = None; e_owner = (Some (OwnG g)); e_queue = [];
        e_repl = (S O) } s1.s_ents
    in
    ROk ((fin (with_ents s1 ents) a), (OGuard (g, k, None)))

(** val evict_scan :
    (key * entry) list -> key list -> nat -> (key list option, nat) sum **)

let rec evict_scan ents order n = match n with
| O -> Inl (Some [])
| S n' ->
  (match order with
   | [] -> Inl (Some [])
   | k :: rest ->
     (match aget k ents with
      | Some e ->
        (match e.e_owner with
         | Some _ ->
           if Nat.ltb O e.e_repl
           then evict_scan ents rest n
           else Inr site_evict_locked
         | None ->
           (match e.e_val with
            | Some _ ->
              (match evict_scan ents rest n' with
               | Inl o ->
                 (match o with
                  | Some l -> Inl (Some (k :: l))
                  | None -> Inl None)
               | Inr n0 -> Inr n0)
            | None ->
              if Nat.ltb O e.e_repl
              then evict_scan ents rest n
              else Inr site_evict_none))
      | None -> Inl None))

(** val lock_keys : state -> key list -> state * ((gid * key) * z) list **)

let rec lock_keys s = function
| [] -> (s, [])
| k :: rest ->
  (match aget k s.s_ents with
   | Some e ->
     let (s1, g) = new_guard s k in
     let e' = set_repl (set_owner e (Some (OwnG g))) (S e.e_repl) in
     let s2 = with_ents s1 (aset k e' s1.s_ents) in
     let (s3, l) = lock_keys s2 rest in
     (s3, (((g, k), (match val_of e with
                     | Some v -> v
                     | None -> Z0)) :: l))
   | None -> lock_keys s rest)

(** val do_enter :
    cfg -> state -> aid -> shape -> key -> nat option -> key list -> result **)

let do_enter c s a sh k lim o =
  match lim with
  | Some n ->
    let over = sub (length s.s_ents) (sub n (S O)) in
    (match over with
     | O -> do_lookup c s a sh k
     | S _ ->
       (match iter_order c s o with
        | Some order ->
          (match evict_scan s.s_ents order over with
           | Inl o0 ->
             (match o0 with
              | Some ks ->
                (match ks with
                 | [] -> do_lookup c s a sh k
                 | _ :: _ ->
                   let (s1, offered) = lock_keys s ks in
                   ROk
                   ((set_pc s1 a (PInCb (sh, k, n,
                      (map (fun x -> fst (fst x)) offered)))), (OOffered
                   offered)))
              | None -> RInvalid)
           | Inr site -> RPanic site)
        | None -> RInvalid))
  | None -> do_lookup c s a sh k

(** val do_key_try : cfg -> state -> aid -> shape -> key -> result **)

let do_key_try _ s a sh k =
  match aget k s.s_ents with
  | Some e ->
    (match e.e_owner with
     | Some _ -> ROk ((set_pc s a (PCleanup (sh, k))), ONothing)
     | None ->
       let (s1, g) = new_guard s k in
       let s2 = with_ents s1 (aset k (set_owner e (Some (OwnG g))) s1.s_ents)
       in
       ROk ((fin s2 a), (OGuard (g, k, (val_of e)))))
  | None -> RInvalid

(** val do_key_wait : cfg -> state -> aid -> shape -> key -> result **)

let do_key_wait _ s a sh k =
  match aget k s.s_ents with
  | Some e ->
    (match e.e_owner with
     | Some _ ->
       let s1 =
         with_ents s (aset k (set_queue e (app e.e_queue (a :: []))) s.s_ents)
       in
       ROk ((set_pc s1 a (PQueued (sh, k))), ONothing)
     | None ->
       let (s1, g) = new_guard s k in
       let s2 = with_ents s1 (aset k (set_owner e (Some (OwnG g))) s1.s_ents)
       in
       ROk ((fin s2 a), (OGuard (g, k, (val_of e)))))
  | None -> RInvalid

(** val do_queued : cfg -> state -> aid -> shape -> key -> result **)

let do_queued _ s a _ k =
  match aget k s.s_ents with
  | Some e ->
    if own_is_waiter e.e_owner a
    then let (s1, g) = new_guard s k in
         let s2 =
           with_ents s1 (aset k (set_owner e (Some (OwnG g))) s1.s_ents)
         in
         ROk ((fin s2 a), (OGuard (g, k, (val_of e))))
    else RInvalid
  | None -> RInvalid

(** val cleanup_ents :
    (key * entry) list -> key -> ((key * entry) list option, nat) sum **)

let cleanup_ents ents k =
  match aget k ents with
  | Some e ->
    if Nat.eqb e.e_repl (S O)
    then (match e.e_owner with
          | Some _ -> Inr site_cleanup_locked
          | None ->
            (match e.e_val with
             | Some _ -> Inl (Some (aset k (set_repl e O) ents))
             | None -> Inl (Some (adel k ents))))
    else Inl (Some (aset k (set_repl e (sub e.e_repl (S O))) ents))
  | None -> Inl None

(** val do_cleanup : cfg -> state -> aid -> key -> result **)

let do_cleanup _ s a k =
  match cleanup_ents s.s_ents k with
  | Inl o ->
    (match o with
     | Some ents -> ROk ((fin (with_ents s ents) a), OTryFail)
     | None -> RInvalid)
  | Inr site -> RPanic site

(** val cancel_ents :
    cfg -> (key * entry) list -> aid -> key -> ((key * entry) list option,
    nat) sum **)

let cancel_ents _ ents a k =
  match aget k ents with
  | Some e ->
    let e1 = set_repl (mx_cancel e a) (sub e.e_repl (S O)) in
    let ents1 = aset k e1 ents in
    if Nat.eqb e1.e_repl O
    then (match e1.e_owner with
          | Some _ -> Inr site_cleanup_locked
          | None ->
            (match e1.e_val with
             | Some _ -> Inl (Some ents1)
             | None -> Inl (Some (adel k ents1))))
    else Inl (Some ents1)
  | None -> Inr site_cancel_absent

(** val begin_unlock : cfg -> state -> gid -> state **)

let begin_unlock c s g =
  if c_lru c
  then (match aget g s.s_guards with
        | Some k ->
          (match aget k s.s_ents with
           | Some e ->
             (match e.e_val with
              | Some p ->
                let (v, _) = p in
                with_ents s
                  (aset k (set_val e (Some (v, s.s_clock))) s.s_ents)
              | None -> s)
           | None -> s)
        | None -> s)
  else s

(** val unlock_cs : cfg -> state -> gid -> (state option, nat) sum **)

let unlock_cs c s g =
  match aget g s.s_guards with
  | Some k ->
    let guards = adel g s.s_guards in
    (match aget k s.s_ents with
     | Some e ->
       let e1 = set_repl (mx_release e) (sub e.e_repl (S O)) in
       let ents1 = aset k e1 s.s_ents in
       (match e.e_val with
        | Some _ -> Inl (Some (with_guards (with_ents s ents1) guards))
        | None ->
          let ents2 = promote_if_lru c k ents1 in
          if Nat.eqb e1.e_repl O
          then Inl (Some (with_guards (with_ents s (adel k ents2)) guards))
          else Inl (Some (with_guards (with_ents s ents2) guards)))
     | None -> Inr site_unlock_absent)
  | None -> Inl None

(** val do_drops : cfg -> state -> aid -> gid list -> after -> result **)

let do_drops c s a gs af =
  match gs with
  | [] -> RInvalid
  | g :: rest ->
    (match unlock_cs c s g with
     | Inl o ->
       (match o with
        | Some s1 ->
          (match rest with
           | [] ->
             (match af with
              | AReenter (sh, k, lim) ->
                ROk ((set_pc s1 a (PEnter (sh, k, (Some lim)))), ONothing)
              | _ -> ROk ((fin s1 a), (after_obs af)))
           | g' :: _ ->
             ROk ((set_pc (begin_unlock c s1 g') a (PDrops (rest, af))),
               ONothing))
        | None -> RInvalid)
     | Inr site -> RPanic site)

(** val pc_drops : pc -> gid -> bool **)

let pc_drops p g =
  match p with
  | PDrops (gs, _) -> mem_nat g gs
  | PStream subs ->
    existsb (fun ks ->
      match snd ks with
      | SUnlocking g' -> Nat.eqb g g'
      | _ -> false) subs
  | PStreamDrop subs ->
    existsb (fun ks ->
      match snd ks with
      | SUnlocking g' -> Nat.eqb g g'
      | _ -> false) subs
  | _ -> false

(** val guard_busy : state -> gid -> bool **)

let guard_busy s g =
  existsb (fun ap -> pc_drops (snd ap) g) s.s_ops

(** val guard_live : state -> gid -> bool **)

let guard_live s g =
  (&&) (amem g s.s_guards) (negb (guard_busy s g))

(** val expired_keys : (key * entry) list -> key list -> z -> key list **)

let expired_keys ents order cutoff =
  filter (fun k ->
    match aget k ents with
    | Some e ->
      (match e.e_owner with
       | Some _ -> false
       | None ->
         (match e.e_val with
          | Some p -> let (_, st) = p in Z.leb st cutoff
          | None -> false))
    | None -> false) order

(** val do_scan : cfg -> state -> aid -> z -> key list -> result **)

let do_scan c s a cutoff o =
  match iter_order c s o with
  | Some order ->
    let (s1, l) = lock_keys s (expired_keys s.s_ents order cutoff) in
    ROk ((fin s1 a), (OExpired l))
  | None -> RInvalid

(** val instant_floor : z **)

let instant_floor =
  Z.opp (Z.pow (Zpos (XO XH)) (Zpos (XI (XI (XI (XI (XI XH)))))))

(** val cutoff_of : z -> z -> z option **)

let cutoff_of now d =
  if Z.ltb (Z.sub now d) instant_floor then None else Some (Z.sub now d)

(** val clone_all : (key * entry) list -> key list -> (key * entry) list **)

let rec clone_all ents = function
| [] -> ents
| k :: rest ->
  (match aget k ents with
   | Some e -> clone_all (aset k (set_repl e (S e.e_repl)) ents) rest
   | None -> clone_all ents rest)

(** val do_stream_enter : cfg -> state -> aid -> key list -> result **)

let do_stream_enter c s a o =
  match iter_order c s o with
  | Some order ->
    let s1 = with_ents s (clone_all s.s_ents order) in
    ROk ((set_pc s1 a (PStream (map (fun k -> (k, SInit)) order))), (OStream
    order))
  | None -> RInvalid

(** val do_sub_poll :
    cfg -> state -> aid -> (key * sub0) list -> key -> result **)

let do_sub_poll c s a subs k =
  match aget k subs with
  | Some st ->
    (match aget k s.s_ents with
     | Some e ->
       let acquire =
         let (s1, g) = new_guard s k in
         let s2 =
           with_ents s1 (aset k (set_owner e (Some (OwnG g))) s1.s_ents)
         in
         (match val_of e with
          | Some v ->
            ROk ((set_pc s2 a (PStream (adel k subs))), (OItem (g, k, v)))
          | None ->
            ROk ((set_pc s2 a (PStream (aset k (SUnlocking g) subs))),
              ONothing))
       in
       (match st with
        | SInit ->
          (match e.e_owner with
           | Some _ ->
             let s1 =
               with_ents s
                 (aset k (set_queue e (app e.e_queue (a :: []))) s.s_ents)
             in
             ROk ((set_pc s1 a (PStream (aset k SQueued subs))), ONothing)
           | None -> acquire)
        | SQueued -> if own_is_waiter e.e_owner a then acquire else RInvalid
        | SUnlocking g ->
          (match unlock_cs c s g with
           | Inl o ->
             (match o with
              | Some s1 ->
                ROk ((set_pc s1 a (PStream (adel k subs))), ONothing)
              | None -> RInvalid)
           | Inr site -> RPanic site))
     | None -> RInvalid)
  | None -> RInvalid

(** val do_sub_drop :
    cfg -> state -> aid -> (key * sub0) list -> key -> result **)

let do_sub_drop c s a subs k =
  match aget k subs with
  | Some st ->
    let finish = fun ents ->
      let subs' = adel k subs in
      let s1 = with_ents s ents in
      (match subs' with
       | [] -> ROk ((fin s1 a), OCancelled)
       | _ :: _ -> ROk ((set_pc s1 a (PStreamDrop subs')), ONothing))
    in
    (match st with
     | SUnlocking _ -> RInvalid
     | _ ->
       (match cancel_ents c s.s_ents a k with
        | Inl o -> (match o with
                    | Some ents -> finish ents
                    | None -> RInvalid)
        | Inr site -> RPanic site))
  | None -> RInvalid

(** val do_guard_op : cfg -> state -> gid -> gop -> result **)

let do_guard_op c s g op =
  if negb (guard_live s g)
  then RInvalid
  else (match aget g s.s_guards with
        | Some k ->
          (match aget k s.s_ents with
           | Some e ->
             let put = fun v -> with_ents s (aset k (set_val e v) s.s_ents) in
             let now = stamp_now c s in
             (match op with
              | GInsert v -> ROk ((put (Some (v, now))), (OVal (val_of e)))
              | GRemove -> ROk ((put None), (OVal (val_of e)))
              | GSet v ->
                (match e.e_val with
                 | Some p ->
                   let (_, st) = p in
                   ROk ((put (Some (v, st))), (OVal (Some v)))
                 | None -> ROk (s, (OVal None)))
              | GTryInsert v ->
                (match e.e_val with
                 | Some _ -> ROk (s, OExists)
                 | None -> ROk ((put (Some (v, now))), (OVal (Some v))))
              | GGetOrInsert v ->
                (match e.e_val with
                 | Some p -> let (v0, _) = p in ROk (s, (OVal (Some v0)))
                 | None -> ROk ((put (Some (v, now))), (OVal (Some v))))
              | GRead -> ROk (s, (OVal (val_of e)))
              | GClosurePanic ->
                (match e.e_val with
                 | Some p -> let (v0, _) = p in ROk (s, (OVal (Some v0)))
                 | None -> ROk (s, OPanicked)))
           | None -> RInvalid)
        | None -> RInvalid)

(** val consume_list :
    (key * entry) list -> key list -> ((key * z) list, nat) sum **)

let rec consume_list ents = function
| [] -> Inl []
| k :: rest ->
  (match aget k ents with
   | Some e ->
     if negb (Nat.eqb e.e_repl O)
     then Inr site_consume_shared
     else (match val_of e with
           | Some v ->
             (match consume_list ents rest with
              | Inl l -> Inl ((k, v) :: l)
              | Inr n -> Inr n)
           | None -> Inr site_consume_none)
   | None -> Inl [])

(** val check_inv2_after : result -> result **)

let check_inv2_after r = match r with
| ROk (s, _) -> if inv2_ok s.s_ents then r else RPanic site_inv2
| _ -> r

(** val cs : state -> result -> result **)

let cs s r =
  if inv2_ok s.s_ents then check_inv2_after r else RPanic site_inv2

(** val do_resume : cfg -> state -> aid -> key list -> result **)

let do_resume c s a o =
  match aget a s.s_ops with
  | Some p ->
    (match p with
     | PEnter (sh, k, lim) -> cs s (do_enter c s a sh k lim o)
     | PKeyTry (sh, k) -> do_key_try c s a sh k
     | PKeyWait (sh, k) -> do_key_wait c s a sh k
     | PQueued (sh, k) -> do_queued c s a sh k
     | PCleanup (_, k) -> cs s (do_cleanup c s a k)
     | PCancel k ->
       cs s
         (match cancel_ents c s.s_ents a k with
          | Inl o0 ->
            (match o0 with
             | Some ents -> ROk ((fin (with_ents s ents) a), OCancelled)
             | None -> RInvalid)
          | Inr site -> RPanic site)
     | PDrops (gs, af) -> cs s (do_drops c s a gs af)
     | PScan cutoff -> cs s (do_scan c s a cutoff o)
     | PStreamEnter -> cs s (do_stream_enter c s a o)
     | PCount -> cs s (ROk ((fin s a), (OCount (length s.s_ents))))
     | PKeys ->
       cs s
         (match iter_order c s o with
          | Some order -> ROk ((fin s a), (OKeys order))
          | None -> RInvalid)
     | _ -> RInvalid)
  | None -> RInvalid

(** val do_sub : cfg -> state -> aid -> key -> result **)

let do_sub c s a k =
  match aget a s.s_ops with
  | Some p ->
    (match p with
     | PStream subs ->
       (match aget k subs with
        | Some s0 ->
          (match s0 with
           | SUnlocking _ -> cs s (do_sub_poll c s a subs k)
           | _ -> do_sub_poll c s a subs k)
        | None -> do_sub_poll c s a subs k)
     | PStreamDrop subs -> cs s (do_sub_drop c s a subs k)
     | _ -> RInvalid)
  | None -> RInvalid

(** val lim_ok : nat option -> bool **)

let lim_ok = function
| Some n -> (match n with
             | O -> false
             | S _ -> true)
| None -> true

(** val do_start : cfg -> state -> aid -> call -> result **)

let do_start c s a cl =
  if amem a s.s_ops
  then RInvalid
  else (match cl with
        | CLock (sh, k, lim) ->
          if lim_ok lim
          then ROk ((set_pc s a (PEnter (sh, k, lim))), ONothing)
          else RInvalid
        | CDrop g ->
          if guard_live s g
          then ROk
                 ((set_pc (begin_unlock c s g) a (PDrops ((g :: []),
                    ADoneUnit))), ONothing)
          else RInvalid
        | CExpire d ->
          if (&&) (c_lru c) (Z.leb Z0 d)
          then (match cutoff_of s.s_clock d with
                | Some ct -> ROk ((set_pc s a (PScan ct)), ONothing)
                | None -> ROk (s, (OExpired [])))
          else RInvalid
        | CStream -> ROk ((set_pc s a PStreamEnter), ONothing)
        | CCount -> ROk ((set_pc s a PCount), ONothing)
        | CKeys -> ROk ((set_pc s a PKeys), ONothing))

(** val do_cancel : cfg -> state -> aid -> result **)

let do_cancel _ s a =
  match aget a s.s_ops with
  | Some p ->
    (match p with
     | PInCb (sh, _, _, _) ->
       if sh_is_async sh then ROk ((fin s a), OCancelled) else RInvalid
     | PQueued (sh, k) ->
       if sh_is_async sh
       then ROk ((set_pc s a (PCancel k)), ONothing)
       else RInvalid
     | PStream subs ->
       if existsb (fun ks ->
            match snd ks with
            | SUnlocking _ -> true
            | _ -> false) subs
       then RInvalid
       else (match subs with
             | [] -> ROk ((fin s a), OCancelled)
             | _ :: _ -> ROk ((set_pc s a (PStreamDrop subs)), ONothing))
     | _ -> RInvalid)
  | None -> RInvalid

(** val all_live : state -> gid list -> bool **)

let rec all_live s = function
| [] -> true
| g :: t -> (&&) (guard_live s g) (all_live s t)

(** val do_cbreturn : cfg -> state -> aid -> cbres -> bool -> result **)

let do_cbreturn c s a r hold =
  match aget a s.s_ops with
  | Some p ->
    (match p with
     | PInCb (sh, k, lim, offered) ->
       let af =
         match r with
         | CbOk -> AReenter (sh, k, lim)
         | CbErr -> ADoneErr
         | CbPanic -> ADonePanicked
       in
       if hold
       then (match offered with
             | [] -> RInvalid
             | g :: _ ->
               if (&&) (all_live s offered) (nodup_nat offered)
               then ROk
                      ((set_pc (begin_unlock c s g) a (PDrops (offered, af))),
                      ONothing)
               else RInvalid)
       else (match af with
             | AReenter (sh0, k0, lim0) ->
               ROk ((set_pc s a (PEnter (sh0, k0, (Some lim0)))), ONothing)
             | _ -> ROk ((fin s a), (after_obs af)))
     | _ -> RInvalid)
  | None -> RInvalid

(** val do_pollend : cfg -> state -> aid -> result **)

let do_pollend _ s a =
  match aget a s.s_ops with
  | Some p ->
    (match p with
     | PStream subs ->
       (match subs with
        | [] -> ROk (s, OEnd)
        | _ :: _ -> ROk (s, OPending))
     | _ -> RInvalid)
  | None -> RInvalid

(** val do_consume : cfg -> state -> key list -> result **)

let do_consume c s o =
  match s.s_ops with
  | [] ->
    (match s.s_guards with
     | [] ->
       if negb (inv2_ok s.s_ents)
       then RPanic site_inv2
       else (match iter_order c s o with
             | Some order ->
               (match consume_list s.s_ents order with
                | Inl l -> ROk ((with_ents s []), (OConsumed l))
                | Inr site -> RPanic site)
             | None -> RInvalid)
     | _ :: _ -> RInvalid)
  | _ :: _ -> RInvalid

(** val step : cfg -> state -> label -> result **)

let step c s = function
| LStart (a, cl) -> do_start c s a cl
| LResume (a, o) -> do_resume c s a o
| LSub (a, k, _) -> do_sub c s a k
| LPollEnd a -> do_pollend c s a
| LCancel a -> do_cancel c s a
| LGuardOp (g, op) -> do_guard_op c s g op
| LCbReturn (a, r, hold) -> do_cbreturn c s a r hold
| LTick d ->
  if Z.leb Z0 d
  then ROk ((with_clock s (Z.add s.s_clock d)), ONothing)
  else RInvalid
| LConsume o -> do_consume c s o

(** val spec_gop : gop -> z option -> z option * obs **)

let spec_gop op m =
  match op with
  | GInsert v -> ((Some v), (OVal m))
  | GRemove -> (None, (OVal m))
  | GSet v ->
    (match m with
     | Some _ -> ((Some v), (OVal (Some v)))
     | None -> (None, (OVal None)))
  | GTryInsert v ->
    (match m with
     | Some _ -> (m, OExists)
     | None -> ((Some v), (OVal (Some v))))
  | GGetOrInsert v ->
    (match m with
     | Some v0 -> (m, (OVal (Some v0)))
     | None -> ((Some v), (OVal (Some v))))
  | GRead -> (m, (OVal m))
  | GClosurePanic ->
    (match m with
     | Some v0 -> (m, (OVal (Some v0)))
     | None -> (None, OPanicked))

(** val then_ : result -> (state -> result) -> result **)

let then_ r f =
  match r with
  | ROk (s, o) -> (match o with
                   | ONothing -> f s
                   | _ -> r)
  | _ -> r

(** val seq_lock : cfg -> state -> aid -> shape -> key -> result **)

let seq_lock c s a sh k =
  then_ (step c s (LStart (a, (CLock (sh, k, None))))) (fun s1 ->
    then_ (step c s1 (LResume (a, []))) (fun s2 ->
      then_ (step c s2 (LResume (a, []))) (fun s3 ->
        step c s3 (LResume (a, [])))))

(** val seq_drop : cfg -> state -> aid -> gid -> result **)

let seq_drop c s a g =
  then_ (step c s (LStart (a, (CDrop g)))) (fun s1 ->
    step c s1 (LResume (a, [])))

type spec = { sp_val : (key -> z option); sp_guards : (gid * key) list;
              sp_next : gid }

(** val sp_locked : spec -> key -> bool **)

let sp_locked sp k =
  existsb (fun gk -> Nat.eqb (snd gk) k) sp.sp_guards

(** val upd : (key -> z option) -> key -> z option -> key -> z option **)

let upd f k v k' =
  if Nat.eqb k' k then v else f k'

type scall =
| SLock of shape * key
| SGop of gid * gop
| SDrop of gid
| SCount
| SKeys

(** val spec_call : spec -> scall -> (spec * obs option) option **)

let spec_call sp = function
| SLock (sh, k) ->
  if sp_locked sp k
  then if sh_is_try sh then Some (sp, (Some OTryFail)) else None
  else Some ({ sp_val = sp.sp_val; sp_guards = ((sp.sp_next,
         k) :: sp.sp_guards); sp_next = (S sp.sp_next) }, (Some (OGuard
         (sp.sp_next, k, (sp.sp_val k)))))
| SGop (g, op) ->
  (match aget g sp.sp_guards with
   | Some k ->
     let (v', o) = spec_gop op (sp.sp_val k) in
     Some ({ sp_val = (upd sp.sp_val k v'); sp_guards = sp.sp_guards;
     sp_next = sp.sp_next }, (Some o))
   | None -> None)
| SDrop g ->
  (match aget g sp.sp_guards with
   | Some _ ->
     Some ({ sp_val = sp.sp_val; sp_guards = (adel g sp.sp_guards); sp_next =
       sp.sp_next }, (Some OUnit))
   | None -> None)
| _ -> Some (sp, None)

(** val seq_count : cfg -> state -> aid -> result **)

let seq_count c s a =
  then_ (step c s (LStart (a, CCount))) (fun s1 ->
    step c s1 (LResume (a, [])))

(** val seq_keys : cfg -> state -> aid -> result **)

let seq_keys c s a =
  then_ (step c s (LStart (a, CKeys))) (fun s1 ->
    step c s1 (LResume (a, (akeys s1.s_ents))))

(** val seq_call : cfg -> state -> aid -> scall -> result **)

let seq_call c s a = function
| SLock (sh, k) -> seq_lock c s a sh k
| SGop (g, op) -> step c s (LGuardOp (g, op))
| SDrop g -> seq_drop c s a g
| SCount -> seq_count c s a
| SKeys -> seq_keys c s a

(** val spec_init : spec **)

let spec_init =
  { sp_val = (fun _ -> None); sp_guards = []; sp_next = O }
